"""C06 helper: recipes ("how a value of an ABI type is assembled with set(...)"), the builder that turns a
recipe into a REAL PyTeal program through the public API only, the Python-side meaning of a recipe (value /
must-reject / must-fail), the wire form for the Coq model (ABI/Encode.v via pv_c06), execution on the
extracted AVM.

Types are the nested tuples of c19_abi.  A recipe follows the shape of its type:

  leaf forms
    ("int", z)        Python int                       Uint*/Byte.set(int)
    ("bool", b)       Python bool                      Bool.set(bool)
    ("iexpr", k)      run-time uint64 number k         <X>.set(ExtractUint64(<packed ints>, 8k))
    ("iconst", n)     the expression Int(n)            (an Expr: checked at run time, like iexpr)
    ("blit", b)       Python bytes                     String/DynamicBytes/StaticBytes/Address.set(bytes)
    ("str", b)        Python str (b = its UTF-8)       String.set(str)
    ("addrstr", b32)  58-character address string      Address.set(str)
    ("bexpr", j)      run-time byte string number j    <X>.set(<bytes arg j>)
    ("bconst", b)     the expression Bytes(b)          (an Expr)
    ("addrexpr", b32) the expression Addr(<address>)   (an Expr)
  inner forms
    ("copy", r)       y assembled by r, then x.set(y)   (same type)
    ("xcopy", t2, r)  y of the layout-equal class t2 assembled by r, then x.set(y): String <- DynamicArray[Byte],
                      Address <- StaticArray[Byte, 32], StaticBytes[N] <- StaticArray[Byte, N], Uint8 <-> Byte
    ("members", [r...])  every member its own instance; x.set(*members) / x.set([members])

An input vector is (ints, byts): the values of the run-time numbers / byte strings of one execution.
"""
import random

from common import S, sx, call_real, PYTEAL_ERRORS  # noqa
import c19_abi as AB

U64 = 1 << 64
AVM_MAX_BYTES = 4096


# ---------------------------------------------------------------------------------------------
# type helpers
# ---------------------------------------------------------------------------------------------
def kind(t):
    return t if isinstance(t, str) else t[0]


def uint_bits(t):
    if t == "byte":
        return 8
    if kind(t) == "uint":
        return t[1]
    return None


def elem_type(t):
    k = kind(t)
    if k in ("sarr", "darr"):
        return t[1]
    if k in ("address", "string", "dynbytes", "sbytes"):
        return "byte"
    return None


def static_count(t):
    k = kind(t)
    if k == "sarr":
        return t[2]
    if k == "sbytes":
        return t[1]
    if k == "address":
        return 32
    return None


def is_bytes_like(t):
    return kind(t) in ("address", "string", "dynbytes", "sbytes")


def is_dyn_bytes(t):
    return kind(t) in ("string", "dynbytes")


def py_is_dynamic(t):
    """dynamic-ness computed here from the ARC-4 definition (independent of PyTeal and of the model)"""
    k = kind(t)
    if k in ("string", "dynbytes", "darr"):
        return True
    if k == "sarr":
        return py_is_dynamic(t[1])
    if k in ("tuple", "named"):
        return any(py_is_dynamic(x) for x in AB.children(t))
    return False


# ---------------------------------------------------------------------------------------------
# recipes
# ---------------------------------------------------------------------------------------------
class Alloc:
    """numbers the run-time inputs of one recipe"""

    def __init__(self, max_bytes_args=15):
        self.n_ints = 0
        self.n_bytes = 0
        self.max_bytes_args = max_bytes_args
        self.int_bits = []       # per run-time number: the bit width of the target (64 for bool targets)
        self.bytes_info = []     # per run-time byte string: (kind, static length or None)

    def new_int(self, bits):
        self.int_bits.append(bits)
        self.n_ints += 1
        return self.n_ints - 1

    def new_bytes(self, t):
        if self.n_bytes >= self.max_bytes_args:
            return None
        self.bytes_info.append((kind(t), static_count(t)))
        self.n_bytes += 1
        return self.n_bytes - 1


def rand_bytes(rng, n, text=False):
    if text:
        b = AB.utf8_bytes(rng, n)[:n] if n else b""
        try:
            b.decode("utf-8")
        except UnicodeDecodeError:
            b = bytes(rng.randrange(0x20, 0x7F) for _ in range(n))
        return b
    return bytes(rng.randrange(256) for _ in range(n))


def good_int(rng, bits):
    return rng.choice([0, 1, (1 << bits) - 1, 1 << (bits - 1), rng.randrange(1 << bits), rng.randrange(1 << bits), rng.randrange(256) % (1 << bits)])


def gen_recipe(t, rng, alloc, p_expr=0.5, p_copy=0.08, p_bad=0.0, maxlen=4, depth=0):
    """A recipe for type t. p_expr: probability that a leaf is given as a run-time expression;
    p_bad: probability that a CONSTRUCTION-time constant is deliberately invalid (out-of-range int,
    wrong length)."""
    k = kind(t)
    if k not in ("tuple", "named") and rng.random() < p_copy and depth < 6:
        return ("copy", gen_recipe(t, rng, alloc, p_expr, p_copy / 2, p_bad, maxlen, depth + 1))
    if xcopy_source(t) is not None and rng.random() < p_copy and depth < 6:
        t2 = xcopy_source(t)
        return ("xcopy", t2, gen_recipe(t2, rng, alloc, p_expr, 0.0, 0.0, maxlen, depth + 1))
    bits = uint_bits(t)
    if bits is not None:
        r = rng.random()
        if r < p_expr:
            return ("iexpr", alloc.new_int(bits), rng.choice(INT_WRAPS))
        if r < p_expr + 0.1:
            return ("iconst", good_int(rng, bits))
        if rng.random() < p_bad:
            return ("int", rng.choice([1 << bits, (1 << bits) + 1, -1, 1 << 64, (1 << 64) + 5, -(1 << 63)]))
        return ("int", good_int(rng, bits))
    if k == "bool":
        r = rng.random()
        if r < p_expr:
            return ("iexpr", alloc.new_int(64), rng.choice(INT_WRAPS))
        if r < p_expr + 0.1:
            return ("iconst", rng.choice([0, 1, 2, U64 - 1]))
        return ("bool", rng.random() < 0.5)
    if is_bytes_like(t):
        n = static_count(t)
        r = rng.random()
        if r < 0.12:
            # a Sequence[Byte]
            cnt = n if n is not None else rng.choice([0, 1, 2, 3, maxlen])
            if cnt <= 40:
                if rng.random() < p_bad and n is not None:
                    cnt = max(0, cnt + rng.choice([-1, 1]))
                return ("members", [gen_recipe("byte", rng, alloc, p_expr, 0.0, p_bad, maxlen, depth + 1) for _ in range(cnt)])
        if r < 0.12 + p_expr:
            j = alloc.new_bytes(t)
            if j is not None:
                return ("bexpr", j)
        ln = n if n is not None else rng.choice([0, 1, 2, 5, maxlen, rng.randrange(0, 3 * maxlen + 1)])
        if rng.random() < p_bad and n is not None:
            ln = max(0, ln + rng.choice([-1, 1]))
        text = k == "string"
        b = rand_bytes(rng, ln, text)
        forms = ["blit", "bconst"]
        if k == "string":
            forms += ["str", "str"]
        if k == "address" and len(b) == 32:
            forms += ["addrstr", "addrexpr"]
        return (rng.choice(forms), b)
    if k in ("sarr", "darr"):
        e = t[1]
        if k == "sarr":
            cnt = t[2]
            if rng.random() < p_bad:
                cnt = max(0, cnt + rng.choice([-1, 1]))
        else:
            cnt = rng.choice([0, 1, 2, 3, maxlen, rng.randrange(0, 2 * maxlen + 1)])
            if e == "bool":
                cnt = rng.choice([0, 1, 7, 8, 9, 16, 17, cnt])
        return ("members", [gen_recipe(e, rng, alloc, p_expr, p_copy, p_bad, maxlen, depth + 1) for _ in range(cnt)])
    if k in ("tuple", "named"):
        ch = list(AB.children(t))
        if rng.random() < p_bad and ch:
            ch = ch[:-1]
        return ("members", [gen_recipe(x, rng, alloc, p_expr, p_copy, p_bad, maxlen, depth + 1) for x in ch])
    raise ValueError("gen_recipe: %r" % (t,))


INT_WRAPS = [None, "btoi", "extract32", "extract16", "getbyte", "getbit", "mul1", "add0", "if", "scratch", "subcall", "extract64"]


def wrap_value(wrap, n):
    """the uint64 an integer source expression of shape `wrap` evaluates to when run-time number k is n"""
    if wrap == "extract32":
        return n & 0xFFFFFFFF
    if wrap == "extract16":
        return n & 0xFFFF
    if wrap == "getbyte":
        return n & 0xFF
    if wrap == "getbit":
        return n & 1
    return n


def iexpr_value(r, ints):
    return wrap_value(r[2] if len(r) > 2 else None, ints[r[1]])


def xcopy_source(t):
    """a different TypeSpec class whose instances x.set(...) accepts for a target of type t (same ARC-4 layout)"""
    k = kind(t)
    if k == "string":
        return ("darr", "byte")
    if k == "address":
        return ("sarr", "byte", 32)
    if k == "sbytes" and t[1] <= 40:
        return ("sarr", "byte", t[1])
    if t == ("uint", 8):
        return "byte"
    if t == "byte":
        return ("uint", 8)
    return None


def recipe_inputs(r, acc=None):
    """(set of int indices, set of bytes indices) used by a recipe"""
    if acc is None:
        acc = (set(), set())
    if r[0] == "iexpr":
        acc[0].add(r[1])
    elif r[0] == "bexpr":
        acc[1].add(r[1])
    elif r[0] == "copy":
        recipe_inputs(r[1], acc)
    elif r[0] == "xcopy":
        recipe_inputs(r[2], acc)
    elif r[0] == "members":
        for x in r[1]:
            recipe_inputs(x, acc)
    return acc


def count_instances(r):
    if r[0] == "copy":
        return 1 + count_instances(r[1])
    if r[0] == "xcopy":
        return 1 + count_instances(r[2])
    if r[0] == "members":
        return 1 + sum(count_instances(x) for x in r[1])
    return 1


# ---------------------------------------------------------------------------------------------
# meaning of a recipe, computed here from the ARC-4 definition (independent of PyTeal and the model)
# ---------------------------------------------------------------------------------------------
class Reject(Exception):
    """the construction must raise (a constant does not fit / wrong length / wrong arity)"""


class MustFail(Exception):
    """the program must fail on the AVM (a run-time value does not fit)"""


def recipe_value(t, r, ints, byts, strict_order=True):
    """Returns the Python value (bool | int | bytes | list) the recipe denotes for the given inputs.
    Raises Reject if some construction-time constant is invalid for its type (takes precedence: there is no
    program at all), MustFail if a run-time value is."""
    state = {"fail": False}
    v = _value(t, r, ints, byts, state)
    if state["fail"]:
        raise MustFail()
    return v


def _value(t, r, ints, byts, state):
    k = kind(t)
    f = r[0]
    if f == "copy":
        if k in ("tuple", "named"):
            raise Reject("Tuple.set(other tuple) is not supported")
        return _value(t, r[1], ints, byts, state)
    if f == "xcopy":
        v = _value(r[1], r[2], ints, byts, state)
        return bytes(v) if is_bytes_like(t) and isinstance(v, list) else v
    bits = uint_bits(t)
    if bits is not None:
        if f == "int":
            if not (0 <= r[1] < (1 << bits)):
                raise Reject("int %d does not fit uint%d" % (r[1], bits))
            return r[1]
        if f in ("iexpr", "iconst"):
            n = iexpr_value(r, ints) if f == "iexpr" else r[1]
            if n >= (1 << bits):
                state["fail"] = True
                return n % (1 << bits)
            return n
        raise Reject("form %s at %s" % (f, k))
    if k == "bool":
        if f == "bool":
            return bool(r[1])
        if f in ("iexpr", "iconst"):
            n = iexpr_value(r, ints) if f == "iexpr" else r[1]
            return n != 0
        raise Reject("form %s at bool" % f)
    if is_bytes_like(t):
        n = static_count(t)
        if f in ("blit", "str", "addrstr"):
            b = r[1]
            if n is not None and len(b) != n:
                raise Reject("bytes literal of length %d for %s" % (len(b), AB.arc4_str(t)))
            if n is None and len(b) >= 65536:
                raise Reject("byte string too long for a uint16 length prefix")
            return bytes(b)
        if f in ("bexpr", "bconst", "addrexpr"):
            b = byts[r[1]] if f == "bexpr" else r[1]
            if n is not None and len(b) != n:
                state["fail"] = True
            return bytes(b)
        if f == "members":
            if n is not None and len(r[1]) != n:
                raise Reject("sequence of %d bytes for %s" % (len(r[1]), AB.arc4_str(t)))
            if n is None and len(r[1]) >= 65536:
                raise Reject("too many elements")
            return bytes(_value("byte", x, ints, byts, state) for x in r[1])
        raise Reject("form %s at %s" % (f, k))
    if k in ("sarr", "darr"):
        if f != "members":
            raise Reject("form %s at array" % f)
        if k == "sarr" and len(r[1]) != t[2]:
            raise Reject("wrong element count")
        if k == "darr" and len(r[1]) >= 65536:
            raise Reject("too many elements")
        vs = [_value(t[1], x, ints, byts, state) for x in r[1]]
        _check_first_offset([t[1]] * len(r[1]))
        return vs
    if k in ("tuple", "named"):
        ch = AB.children(t)
        if f != "members" or len(r[1]) != len(ch):
            raise Reject("wrong member count")
        vs = [_value(x, y, ints, byts, state) for x, y in zip(ch, r[1])]
        _check_first_offset(ch)
        return vs
    raise ValueError(t)


def static_len(t):
    """ARC-4 static byte length (bool runs packed), from the definition"""
    k = kind(t)
    if k == "bool":
        return 1
    b = uint_bits(t)
    if b is not None:
        return b // 8
    if k == "address":
        return 32
    if k == "sbytes":
        return t[1]
    if k == "sarr":
        if t[1] == "bool":
            return (t[2] + 7) // 8
        return t[2] * static_len(t[1])
    if k in ("tuple", "named"):
        return head_len(AB.children(t))
    raise ValueError("static_len of dynamic %r" % (t,))


def head_len(ts):
    n = 0
    run = 0
    for x in ts:
        if x == "bool":
            run += 1
            continue
        n += (run + 7) // 8
        run = 0
        n += 2 if py_is_dynamic(x) else static_len(x)
    return n + (run + 7) // 8


def _check_first_offset(ts):
    """ARC-4: the offset of a dynamic member must fit a uint16; the FIRST offset is the head length, known
    when the expression is built (PyTeal puts it into a Uint16 as a Python int)."""
    if any(py_is_dynamic(x) for x in ts) and head_len(ts) >= 65536:
        raise Reject("head of %d bytes: the first tail offset does not fit uint16" % head_len(ts))


# ---------------------------------------------------------------------------------------------
# wire form for the Coq model
# ---------------------------------------------------------------------------------------------
def bytes_sx(b):
    if len(b) > 1500 and len(set(b)) == 1:
        return (S("repb"), len(b), b[0])
    return bytes(b)


def src_sx(r, ints, byts):
    f = r[0]
    if f == "int":
        return (S("int"), r[1]) if r[1] >= 0 else (S("nint"), -r[1])
    if f == "bool":
        return S("true") if r[1] else S("false")
    if f == "iexpr":
        return (S("iexpr"), iexpr_value(r, ints))
    if f == "iconst":
        return (S("iexpr"), r[1])
    if f in ("blit", "str", "addrstr"):
        return (S("blit"), bytes_sx(r[1]))
    if f == "bexpr":
        return (S("bexpr"), bytes_sx(byts[r[1]]))
    if f in ("bconst", "addrexpr"):
        return (S("bexpr"), bytes_sx(r[1]))
    if f == "copy":
        return (S("copy"), src_sx(r[1], ints, byts))
    if f == "xcopy":
        # the model has same-class copies only; the member / integer source forms mean the same at both classes
        return (S("copy"), src_sx(r[2], ints, byts))
    if f == "members":
        items = r[1]
        if len(items) > 1500 and all(x == items[0] for x in items):
            return (S("members"), (S("rep"), len(items), src_sx(items[0], ints, byts)))
        return (S("members"),) + tuple(src_sx(x, ints, byts) for x in items)
    raise ValueError(r)


# ---------------------------------------------------------------------------------------------
# the real PyTeal program
# ---------------------------------------------------------------------------------------------
BACKENDS = ["main", "sub", "abiret", "subargs", "members_as_args"]


class Unbuildable(Exception):
    """this (type, recipe, back-end) combination cannot be expressed (e.g. no annotation for a 6-tuple)"""


class Builder:
    def __init__(self, pt, ints_expr, bytes_exprs):
        self.pt = pt
        self.ints_expr = ints_expr          # Expr: the packed uint64 inputs
        self.bytes_exprs = bytes_exprs      # list of Expr: the byte-string inputs
        self.steps = []

    def int_leaf(self, k, wrap=None):
        """run-time number k as an expression whose OUTERMOST node is `wrap` (the value comes from the application
        arguments, so nothing can be folded at compile time)"""
        pt = self.pt
        x = pt.ExtractUint64(self.ints_expr, pt.Int(8 * k))
        if wrap is None or wrap == "extract64":
            return x
        if wrap == "btoi":
            return pt.Btoi(pt.Extract(self.ints_expr, pt.Int(8 * k), pt.Int(8)))
        if wrap == "extract32":
            return pt.ExtractUint32(self.ints_expr, pt.Int(8 * k + 4))
        if wrap == "extract16":
            return pt.ExtractUint16(self.ints_expr, pt.Int(8 * k + 6))
        if wrap == "getbyte":
            return pt.GetByte(self.ints_expr, pt.Int(8 * k + 7))
        if wrap == "getbit":
            return pt.GetBit(self.ints_expr, pt.Int(64 * k + 63))
        if wrap == "mul1":
            return x * pt.Int(1)
        if wrap == "add0":
            return pt.Int(0) + x
        if wrap == "if":
            return pt.If(pt.Len(self.ints_expr) > pt.Int(0), x, pt.Int(0))
        if wrap == "scratch":
            sv = pt.ScratchVar(pt.TealType.uint64)
            return pt.Seq(sv.store(x), sv.load())
        if wrap == "subcall":
            if not hasattr(self, "_ident"):
                def ident(v):
                    return v
                ident.__annotations__ = {"v": pt.Expr}
                self._ident = pt.Subroutine(pt.TealType.uint64)(ident)
            return self._ident(x)
        raise ValueError(wrap)

    def build(self, t, r, into=None):
        """Returns an instance of type t assembled as the recipe says (appending the set(...) expressions to
        self.steps). `into`: use this existing instance (an ABI output variable)."""
        pt = self.pt
        from algosdk import encoding
        spec = AB.to_pyteal(t)
        x = into if into is not None else spec.new_instance()
        f = r[0]
        if f == "copy":
            y = self.build(t, r[1])
            self.steps.append(x.set(y))
        elif f == "xcopy":
            y = self.build(r[1], r[2])
            self.steps.append(x.set(y))
        elif f == "int":
            self.steps.append(x.set(r[1]))
        elif f == "bool":
            self.steps.append(x.set(bool(r[1])))
        elif f == "iexpr":
            self.steps.append(x.set(self.int_leaf(r[1], r[2] if len(r) > 2 else None)))
        elif f == "iconst":
            self.steps.append(x.set(pt.Int(r[1])))
        elif f == "blit":
            self.steps.append(x.set(bytes(r[1])))
        elif f == "str":
            self.steps.append(x.set(r[1].decode("utf-8")))
        elif f == "addrstr":
            self.steps.append(x.set(encoding.encode_address(r[1])))
        elif f == "addrexpr":
            self.steps.append(x.set(pt.Addr(encoding.encode_address(r[1]))))
        elif f == "bexpr":
            self.steps.append(x.set(self.bytes_exprs[r[1]]))
        elif f == "bconst":
            self.steps.append(x.set(pt.Bytes(bytes(r[1]))))
        elif f == "members":
            k = kind(t)
            if k in ("tuple", "named"):
                ch = AB.children(t)
                # zip stops at the shorter list: a wrong member count reaches set() and must be rejected there
                ms = [self.build(ct, cr) for ct, cr in zip(ch, r[1])]
                if len(r[1]) > len(ch):
                    ms += [self.build(ch[-1] if ch else "bool", cr) for cr in r[1][len(ch):]]
                self.steps.append(x.set(*ms))
            else:
                e = elem_type(t)
                if len(r[1]) > 40 and all(m == r[1][0] for m in r[1]):
                    one = self.build(e, r[1][0])            # the same instance many times (as in `[x] * n`)
                    ms = [one] * len(r[1])
                else:
                    ms = [self.build(e, cr) for cr in r[1]]
                self.steps.append(x.set(ms))
        else:
            raise ValueError(r)
        return x


def annotation_of(t):
    r = call_real(lambda: AB.to_pyteal(t).annotation_type())
    if r[0] != "ok":
        raise Unbuildable("no annotation type for %s: %s" % (AB.arc4_str(t), r[1]))
    return r[1]


OBS_SLOT = 255
MAX_LOG = 1024


def observe(pt, enc):
    """The end of every program: the encoding goes to scratch slot 255 (returned by the AVM's run command) and, when the
    AVM's log limit (1024 bytes per call) allows, is logged as well: Log(value.encode())."""
    obs = pt.ScratchVar(pt.TealType.bytes, OBS_SLOT)
    return pt.Seq(obs.store(enc), pt.If(pt.Len(obs.load()) <= pt.Int(MAX_LOG)).Then(pt.Log(obs.load())))


def build_program(pt, t, r, backend, n_bytes):
    """The PyTeal program (an Expr) that assembles the value and logs its encoding.
    Run-time inputs: ApplicationArgs[0] = the uint64 inputs packed big-endian, ApplicationArgs[1+j] = byte string j."""
    abi = pt.abi
    ints_arg = pt.Txn.application_args[0]
    bytes_args = [pt.Txn.application_args[1 + j] for j in range(n_bytes)]

    if backend == "main":
        b = Builder(pt, ints_arg, bytes_args)
        x = b.build(t, r)
        return pt.Seq(*b.steps, observe(pt, x.encode()), pt.Approve())

    if backend == "sub":
        def body():
            b = Builder(pt, ints_arg, bytes_args)
            x = b.build(t, r)
            return pt.Seq(*b.steps, observe(pt, x.encode()))
        body.__name__ = "assemble"
        sub = pt.Subroutine(pt.TealType.none)(body)
        return pt.Seq(sub(), pt.Approve())

    if backend == "abiret":
        ann = annotation_of(t)

        def body(*, output):
            b = Builder(pt, ints_arg, bytes_args)
            b.build(t, r, into=output)
            return pt.Seq(*b.steps)
        body.__name__ = "assemble"
        body.__annotations__ = {"output": ann, "return": pt.Expr}
        sub = pt.ABIReturnSubroutine(body)
        res = AB.to_pyteal(t).new_instance()
        return pt.Seq(sub().store_into(res), observe(pt, res.encode()), pt.Approve())

    if backend == "subargs":
        # the inputs travel as subroutine arguments (frame slots with negative index under frame pointers):
        # the packed ints as an Expr argument, the first two byte strings as Expr / abi.DynamicBytes arguments
        nb = min(n_bytes, 2)

        def make(nb):
            if nb == 0:
                def body(ia):
                    b = Builder(pt, ia, bytes_args)
                    x = b.build(t, r)
                    return pt.Seq(*b.steps, observe(pt, x.encode()))
                body.__annotations__ = {"ia": pt.Expr}
            elif nb == 1:
                def body(ia, b0):
                    b = Builder(pt, ia, [b0] + bytes_args[1:])
                    x = b.build(t, r)
                    return pt.Seq(*b.steps, observe(pt, x.encode()))
                body.__annotations__ = {"ia": pt.Expr, "b0": pt.Expr}
            else:
                def body(ia, b0, b1):
                    b = Builder(pt, ia, [b0, b1.get()] + bytes_args[2:])
                    x = b.build(t, r)
                    return pt.Seq(*b.steps, observe(pt, x.encode()))
                body.__annotations__ = {"ia": pt.Expr, "b0": pt.Expr, "b1": abi.DynamicBytes}
            body.__name__ = "assemble"
            return body
        sub = pt.Subroutine(pt.TealType.none)(make(nb))
        if nb == 0:
            return pt.Seq(sub(ints_arg), pt.Approve())
        if nb == 1:
            return pt.Seq(sub(ints_arg, bytes_args[0]), pt.Approve())
        carrier = abi.DynamicBytes()
        return pt.Seq(carrier.set(bytes_args[1]), sub(ints_arg, bytes_args[0], carrier), pt.Approve())

    if backend == "members_as_args":
        # the members are assembled in the main routine (scratch slots) and handed to an ABI subroutine as ABI
        # arguments; the subroutine assembles the aggregate from its parameters into its ABI output
        if r[0] != "members" or is_bytes_like(t):
            raise Unbuildable("members_as_args needs an aggregate assembled from members")
        k = kind(t)
        mts = list(AB.children(t)) if k in ("tuple", "named") else [t[1]] * len(r[1])
        if len(mts) != len(r[1]) or not (1 <= len(mts) <= 12):
            raise Unbuildable("member count")
        anns = [annotation_of(mt) for mt in mts]
        ann_out = annotation_of(t)
        names = ["m%d" % i for i in range(len(mts))]
        src = "def assemble(%s, *, output):\n    return output.set(%s)\n" % (
            ", ".join(names), ", ".join(names) if k in ("tuple", "named") else "[" + ", ".join(names) + "]")
        ns = {}
        exec(src, ns)  # a function with exactly len(mts) positional parameters
        body = ns["assemble"]
        body.__annotations__ = dict({n: a for n, a in zip(names, anns)}, output=ann_out)
        body.__annotations__["return"] = pt.Expr
        sub = pt.ABIReturnSubroutine(body)
        b = Builder(pt, ints_arg, bytes_args)
        ms = [b.build(mt, mr) for mt, mr in zip(mts, r[1])]
        res = AB.to_pyteal(t).new_instance()
        return pt.Seq(*b.steps, sub(*ms).store_into(res), observe(pt, res.encode()), pt.Approve())

    raise ValueError(backend)


def compile_program(pt, t, r, backend, version, n_bytes, optimize=None):
    """('ok', teal) | ('reject', ExceptionClassName, message) | ('unbuildable', why) | ('compile-error', cls, msg)"""
    try:
        res = call_real(build_program, pt, t, r, backend, n_bytes)
    except Unbuildable as e:  # raised by our own helper before any PyTeal code runs
        return ("unbuildable", str(e))
    if res[0] != "ok":
        if res[1] == "Unbuildable":
            return ("unbuildable", res[2])
        return ("reject", res[1], res[2])
    kw = {}
    if optimize is not None:
        kw["optimize"] = optimize
    c = call_real(pt.compileTeal, res[1], pt.Mode.Application, version=version, **kw)
    if c[0] != "ok":
        # in the subroutine back-ends the set(...) expressions are built while compiling
        return ("compile-error", c[1], c[2])
    return ("ok", c[1])


def make_ctx(ints, byts, fuel=60000):
    packed = b"".join(int(x).to_bytes(8, "big") for x in ints)
    argv = [packed] + [bytes(b) for b in byts]
    return (S("ctx"), (S("mode"), S("app")),
            (S("group"), ((S("fields"), ("NumAppArgs", len(argv))), (S("arrays"), ("ApplicationArgs", argv)))),
            (S("fuel"), fuel))


def run_on_avm(avm, teal, ints, byts, fuel=60000):
    """('ok', logged bytes) | ('fail',) | ('reject-verdict',) | ('inconclusive', why)"""
    res = avm.ask((S("run"), make_ctx(ints, byts, fuel), teal))
    if not isinstance(res, list) or not res or res[0] != S("ran"):
        return ("inconclusive", repr(res)[:200])
    v = res[1]
    if v == S("approve"):
        logs = [e[1] for e in res[3][1:] if e[0] == S("log")]
        obs = [kv[1] for kv in res[4][1] if kv[0] == OBS_SLOT]
        if len(obs) != 1 or not isinstance(obs[0], (bytes, bytearray)):
            return ("inconclusive", "approve without an observed value in slot %d" % OBS_SLOT)
        if (logs != [obs[0]]) if len(obs[0]) <= MAX_LOG else (logs != []):
            return ("inconclusive", "log trace %r does not match the observed value" % ([l[:8] for l in logs],))
        return ("ok", obs[0])
    if v == S("fail"):
        return ("fail",)
    if v == S("reject"):
        return ("reject-verdict",)
    return ("inconclusive", repr(v))


# ---------------------------------------------------------------------------------------------
# input vectors
# ---------------------------------------------------------------------------------------------
def gen_inputs(rng, alloc, style="good", maxlen=4):
    """style good: every run-time value fits; edge: boundary-biased, may not fit (the program must then fail)"""
    ints = []
    for bits in alloc.int_bits:
        if style == "good":
            if bits == 64 and rng.random() < 0.3:
                ints.append(rng.choice([0, 1, 2, U64 - 1, 1 << 63]))
            else:
                ints.append(good_int(rng, bits))
        else:
            ints.append(rng.choice([(1 << bits) - 1, (1 << bits) % U64, U64 - 1, 0, 1, good_int(rng, bits), ((1 << bits) + 1) % U64, 1 << 63]))
    byts = []
    for (k, n) in alloc.bytes_info:
        text = k == "string"
        if n is not None:
            ln = n
            if style != "good" and rng.random() < 0.5:
                ln = max(0, n + rng.choice([-1, 1, -n, 1 + n]))
        else:
            ln = rng.choice([0, 1, 2, 5, maxlen, rng.randrange(0, 3 * maxlen + 1)])
        byts.append(rand_bytes(rng, ln, text))
    return ints, byts
