"""C17 — Reading a routine-local variable before writing it is rejected.

1. proofs: Props/C17.v (model Comp/ValidateSlots.v, lemmas Proofs/ValidateSlotsProof.v)
2. correspondence (exact, ordered error lists) between the real TealBlock.validateSlots and the extracted
   model (ocaml/pv_c17) on (A) hand-built graphs of real TealSimpleBlock/TealConditionalBlock objects
   (corpus, exhaustive small, random) and (B) the per-routine graphs of generated programs, obtained the way
   the compiler obtains them (compileSubroutine, optional optimiser, collectScratchSlots); plus the outcome of
   the real assignScratchSlotsToSubroutines (raises or not, which load errors[0] names) against the model
3. semantic oracles that do not use the model: per-slot reachability on every exported graph; definite
   assignment on the program recipe against the outcome of compileTeal (versions 6..10, optimiser on/off)
4. known findings replay, 5. verdict (failing-input search = the oracles; shrinking).
"""
import copy
import json
import os
import sys
import time
import traceback

from common import *  # noqa
import c17_graph as G
import c17_gen as GG

ensure_env()

MSG = "Scratch slot load occurs before store"
CORPUS_DIR = os.path.join(VERIF, "harness", "corpus", "c17")

# fixed graphs that separate the real algorithm from its near misses (run first, every time)
U = "u"
CORPUS = [
    # diamond: join entered with the slot written (true arm) and then unwritten (false arm)
    {"slots": [["auto"]], "init": [], "blocks": [["cond", [], [1, 2]], ["simple", [["st", 0, U]], [2]], ["simple", [["ld", 0, U]], [None]]]},
    # the same through two different slots: the memo key must contain the set, not its size
    {"slots": [["auto"], ["auto"]], "init": [], "blocks": [["cond", [], [1, 2]], ["simple", [["st", 0, U]], [3]], ["simple", [["st", 1, U]], [3]],
                                                           ["simple", [["ld", 0, U], ["ld", 1, U]], [None]]]},
    # ops after a terminator are still scanned; successors of a terminal block are not
    {"slots": [["auto"]], "init": [], "blocks": [["simple", [["term", "return_"], ["ld", 0, U]], [1]], ["simple", [["ld", 0, U]], [None]]]},
    # a store in one branch must not leak into the sibling branch
    {"slots": [["auto"]], "init": [], "blocks": [["cond", [], [1, 2]], ["simple", [["st", 0, U], ["ld", 0, U]], [None]], ["simple", [["ld", 0, U]], [None]]]},
    # false branch already visited with another set
    {"slots": [["auto"]], "init": [], "blocks": [["cond", [], [1, 2]], ["simple", [["st", 0, U]], [3]], ["cond", [], [3, 3]], ["cond", [], [4, 4]], ["simple", [["ld", 0, U]], [None]]]},
    # loop: zero iterations vs one iteration, Break-like exit
    {"slots": [["auto"]], "init": [], "blocks": [["cond", [], [1, 3]], ["cond", [], [2, 3]], ["simple", [["st", 0, U]], [0]], ["simple", [["ld", 0, U]], [None]]]},
    # self loop on the start block, start re-entered with a different set
    {"slots": [["auto"]], "init": [], "blocks": [["cond", [["ld", 0, U], ["st", 0, U]], [0, 1]], ["simple", [["ld", 0, U]], [None]]]},
    # shared slot pre-initialised; reserved slot; errors with expr None are all equal (de-duplicated across blocks)
    {"slots": [["auto"], ["reserved", 3]], "init": [0], "blocks": [["simple", [["ld", 0, U], ["ld", 1, None]], [1]], ["simple", [["ld", 1, None], ["ld", 1, None]], [None]]]},
    # the same expression object on two loads in different blocks / in one block
    {"slots": [["auto"]], "init": [], "blocks": [["simple", [["ld", 0, 1], ["ld", 0, 1]], [1]], ["simple", [["ld", 0, 1]], [None]]]},
    # two slot arguments on one op, int arguments, ScratchIndex
    {"slots": [["auto"], ["auto"]], "init": [], "blocks": [["simple", [["st2", 0, 1, U], ["ldi", 5], ["idx", 0]], [1]], ["simple", [["ld2", 0, 1, U], ["sti", 4]], [None]]]},
    {"slots": [["auto"], ["auto"]], "init": [], "blocks": [["simple", [["ld2", 0, 1, U]], [None]]]},
    # conditional block with a single edge set
    {"slots": [["auto"]], "init": [], "blocks": [["cond", [], [None, 1]], ["simple", [["ld", 0, U]], [None]]]},
]

# programs that separated seeded mutations from the real code in earlier runs (minimised), run first at every
# version/option combination
def _p(main, vars_=("x", "y")):
    return {"vars": {v: {"kind": "auto"} for v in vars_}, "dyn": [], "mvs": [], "subs": [], "main": main}


PROGRAM_CORPUS = [
    # store in one branch only, then read (memo without the slot set / stores leaking into the sibling branch)
    _p([["if", ["fee"], [["store", "x", ["int", 1]]], None], ["pop", ["load", "x", 1]], ["ret", ["int", 1]]]),
    # the join is entered with {x} and then with {y}: same size, different sets
    _p([["if", ["fee"], [["store", "x", ["int", 1]]], [["store", "y", ["int", 1]]]], ["pop", ["load", "x", 1]], ["ret", ["int", 1]]]),
    # single unstored read in a Cond condition; a store;load pair elsewhere at the same op index (optimiser must keep it)
    _p([["store", "y", ["int", 0]], ["cond", [[["lt", ["load", "x", 1], ["int", 3]], [["store", "x", ["int", 1]]]]]], ["pop", ["load", "x", 2]], ["ret", ["int", 1]]]),
    # zero-iteration loop, Break exit, early return
    _p([["store", "y", ["int", 0]], ["while", ["fee"], [["store", "x", ["int", 1]]]], ["pop", ["load", "x", 1]], ["ret", ["int", 1]]]),
    _p([["store", "y", ["int", 0]], ["while", ["fee"], [["if", ["fee"], [["break"]], None], ["store", "x", ["int", 1]]]], ["pop", ["load", "x", 1]], ["ret", ["int", 1]]]),
    _p([["store", "y", ["int", 0]], ["if", ["fee"], [["ret", ["int", 0]]], [["store", "x", ["int", 1]]]], ["pop", ["load", "x", 1]], ["ret", ["int", 1]]]),
    _p([["store", "y", ["int", 0]], ["if", ["fee"], [["store", "x", ["int", 1]], ["ret", ["load", "x", 2]]], None], ["pop", ["load", "x", 1]], ["ret", ["int", 1]]]),
    # written only through a DynamicScratchVar / a by-reference parameter: PyTeal's rule rejects (no `store` op), the
    # semantic oracle does not demand it; reading the DynamicScratchVar before set_index must be rejected
    dict(_p([["dset", "d0", "x"], ["dstore", "d0", ["int", 1], 1], ["pop", ["load", "x", 2]], ["ret", ["int", 1]]]), dyn=["d0"]),
    dict(_p([["pop", ["dload", "d0", 1]], ["dset", "d0", "x"], ["ret", ["int", 1]]]), dyn=["d0"]),
    dict(_p([["store", "y", ["int", 0]], ["call", "f0", [], "x"], ["pop", ["load", "x", 1]], ["ret", ["int", 1]]]),
         subs=[{"name": "f0", "nval": 0, "ref": True, "ret": "none", "body": [["refstore", ["int", 5]]], "result": None}]),
    # a subroutine with its own local read on the path that skips its store; a slot shared with main is pre-initialised
    dict(_p([["store", "y", ["int", 0]], ["pop", ["callv", "f0", [["fee"]], None]], ["ret", ["int", 1]]], ("x", "y", "z")),
         subs=[{"name": "f0", "nval": 1, "ref": False, "ret": "uint64",
                "body": [["if", ["param", 0], [["store", "z", ["int", 1]]], None], ["pop", ["load", "y", 1]]], "result": ["load", "z", 2]}]),
    # MaybeValue read before the MaybeValue itself is executed on one path
    dict(_p([["store", "y", ["int", 0]], ["if", ["fee"], [["mv", "m0"]], None], ["pop", ["mvval", "m0", 1]], ["ret", ["int", 1]]]), mvs=["m0"]),
    # an unstored read in an If arm / a sibling arm / a loop body, and LATER an adjacent `x.store(e); use(x.load())`: with
    # the optimiser on the pair may only be cancelled if no other load of x exists anywhere in the routine
    _p([["store", "y", ["int", 0]], ["if", ["fee"], [["pop", ["load", "x", 1]]], None], ["store", "x", ["int", 5]], ["ret", ["load", "x", 2]]]),
    _p([["store", "y", ["int", 0]], ["if", ["fee"], [["pop", ["load", "x", 1]], ["ret", ["int", 0]]], [["store", "x", ["int", 5]], ["pop", ["load", "x", 2]]]], ["ret", ["int", 1]]]),
    _p([["store", "y", ["int", 0]], ["while", ["fee"], [["pop", ["load", "x", 1]], ["break"]]], ["store", "x", ["int", 5]], ["ret", ["load", "x", 2]]]),
    dict(_p([["store", "y", ["int", 0]], ["pop", ["callv", "f0", [["fee"]], None]], ["ret", ["int", 1]]], ("y", "z")),
         subs=[{"name": "f0", "nval": 1, "ref": False, "ret": "uint64",
                "body": [["if", ["param", 0], [["pop", ["load", "z", 1]]], None], ["store", "z", ["int", 1]]], "result": ["load", "z", 2]}]),
    # a dead read behind a return in straight-line code
    _p([["store", "y", ["int", 0]], ["ret", ["int", 1]], ["pop", ["load", "x", 1]], ["ret", ["int", 1]]]),
]

OPLISTS_1 = [[], [["st", 0, U]], [["ld", 0, U]], [["ld", 0, U], ["st", 0, U]], [["st", 0, U], ["ld", 0, U]],
             [["term", "retsub"], ["ld", 0, U]], [["ld", 0, U], ["term", "err"]]]
OPLISTS_3 = [[], [["st", 0, U]], [["ld", 0, U]]]


class Stats:
    def __init__(self):
        self.mismatch = []       # real error list != model error list
        self.missed = []         # property-level: live unstored load not reported (failing input)
        self.spurious = []       # reported load without an unstored scan path
        self.crash = []
        self.hist = {}

    def h(self, k, n=1):
        self.hist[k] = self.hist.get(k, 0) + n


def check_one_graph(ck, model, st, start, init_slots, origin):
    """Compare real validateSlots, model and reachability oracle on one real graph."""
    ex = G.export_graph(start)
    init_ids = [s.id for s in init_slots]
    if not G.slot_identity_ok(start, init_slots):
        st.h("skipped:two-slot-objects-one-id")
        return None
    r = call_real(G.real_validate, start, init_slots, ex)
    if r[0] != "ok":
        st.crash.append(dict(origin, exception=list(r[1:]), graph=ex.plain(), init=init_ids))
        return None
    real = r[1]
    mod, vis, bound = G.model_validate(model, ex, init_ids)
    live, scanned, live_pos, scanned_pos = G.graph_oracle(ex, init_ids)
    nops = sum(len(b[1]) for b in ex.blocks)
    ck.count(("graph", json.dumps(ex.plain()), tuple(sorted(init_ids))), nontrivial=(len(ex.blocks) > 1 or nops > 1))
    st.h("graphs")
    st.h("graphs_with_errors" if real else "graphs_clean")
    if scanned - live:
        st.h("graphs_with_dead_only_loads")
    if vis is not None:
        st.h("memo_keys", vis)
        st.hist["max_memo_keys"] = max(st.hist.get("max_memo_keys", 0), vis)
    payload = dict(origin, graph=ex.plain(), init=sorted(init_ids), real=real, model=mod if isinstance(mod, list) else repr(mod),
                   oracle_live=sorted(live), oracle_scanned=sorted(scanned))
    if real != mod:
        st.mismatch.append(payload)
    if live - set(real):
        st.missed.append(payload)
    if set(real) - scanned:
        st.spurious.append(payload)
    return ex, real, mod


def run_plain(ck, model, st, plain, origin):
    start, slots, init = G.build_real(plain)
    return check_one_graph(ck, model, st, start, init, dict(kind="graph", origin=origin, plain=plain))


def plain_fails(model, plain):
    """for shrinking: the real validateSlots misses a live unstored load on this hand-built graph"""
    try:
        start, slots, init = G.build_real(plain)
        ex = G.export_graph(start)
        real = G.real_validate(start, init, ex)
        live = G.graph_oracle(ex, [s.id for s in init])[0]
        return bool(live - set(real))
    except Exception:
        return False


# ---------------------------------------------------------------------------------------------
# compiled programs
# ---------------------------------------------------------------------------------------------
def routine_graphs(main_expr, version, scratch_opt):
    """compileSubroutine + (optional) optimiser, exactly as Compilation._compile_impl does up to the call
    of assignScratchSlotsToSubroutines. Returns (subroutine_start_blocks, global_slots)."""
    import pyteal as pt
    from pyteal.compiler.compiler import compileSubroutine, CompileOptions
    from pyteal.compiler.scratchslots import collectScratchSlots, collect_unoptimized_slots
    from pyteal.compiler.optimizer import apply_global_optimizations

    options = CompileOptions(mode=pt.Mode.Application, version=version, optimize=pt.OptimizeOptions(scratch_slots=scratch_opt))
    graph, starts, ends = {}, {}, {}
    compileSubroutine(main_expr, options, graph, starts, ends)
    if options.optimize.optimize_scratch_slots(version):
        options.optimize._skip_slots = collect_unoptimized_slots(starts)
        for s in starts.values():
            apply_global_optimizations(s, options.optimize, version)
    global_slots, _ = collectScratchSlots(starts)
    return starts, global_slots


def classify_exception(e):
    import pyteal as pt

    if isinstance(e, RecursionError):
        return ("crash", "RecursionError")
    if isinstance(e, AssertionError):
        tb = traceback.extract_tb(e.__traceback__)
        return ("crash", "AssertionError@" + (tb[-1].name if tb else "?"))
    if isinstance(e, pt.TealInternalError):
        c = e.__cause__
        if isinstance(c, pt.TealCompileError) and c.msg == MSG and str(e).startswith("Encountered"):
            return ("reject", c.sourceExpr)
    return ("error", "%s: %s" % (type(e).__name__, str(e)[:160]))


def compile_outcome(main_expr, version, scratch_opt):
    import pyteal as pt

    try:
        pt.compileTeal(main_expr, pt.Mode.Application, version=version, optimize=pt.OptimizeOptions(scratch_slots=scratch_opt))
        return ("accept", None)
    except BaseException as e:  # noqa
        if isinstance(e, (KeyboardInterrupt, SystemExit)):
            raise
        return classify_exception(e)


def program_must_accepted(recipe, version, scratch_opt):
    """for shrinking: oracle says some live path reads before any write, and compileTeal accepts"""
    try:
        B = GG.build(recipe)
        must, exact, dead = GG.Oracle(recipe).verdict()
        if not must:
            return False
        return compile_outcome(B.main, version, scratch_opt)[0] == "accept"
    except Exception:
        return False


def stmt_lists(recipe):
    out = []

    def walk(lst):
        out.append(lst)
        for s in lst:
            k = s[0]
            if k == "seq":
                walk(s[1])
            elif k == "if":
                walk(s[2])
                if s[3] is not None:
                    walk(s[3])
            elif k == "cond":
                for c, b in s[1]:
                    walk(b)
            elif k == "while":
                walk(s[2])
            elif k == "for":
                walk(s[1])
                walk(s[3])
                walk(s[4])

    walk(recipe["main"])
    for sd in recipe["subs"]:
        walk(sd["body"])
    return out


def shrink_recipe(recipe, fails, budget=400):
    cur = copy.deepcopy(recipe)
    changed = True
    while changed and budget > 0:
        changed = False
        n = len(stmt_lists(cur))
        for li in range(n):
            lst = stmt_lists(cur)[li] if li < len(stmt_lists(cur)) else []
            for j in range(len(lst) - 1, -1, -1):
                c = copy.deepcopy(cur)
                ls = stmt_lists(c)
                if li >= len(ls) or j >= len(ls[li]):
                    continue
                del ls[li][j]
                budget -= 1
                if fails(c):
                    cur = c
                    changed = True
                if budget <= 0:
                    break
    return cur


class ProgStats:
    def __init__(self):
        self.accepted_unstored = []      # property violation with failing input
        self.wrong_site = []             # rejected, but the error names a load that is not offending
        self.other_error = []            # must-reject program fails with an unrelated error
        self.exact_disagree = []         # outcome differs from PyTeal's own rule on the recipe (no semantic violation)
        self.assign_mismatch = []        # assignScratchSlotsToSubroutines vs model
        self.crash_masks = []            # must-reject program aborted by a crash before validation (C20 defects)
        self.hist = {}

    def h(self, k, n=1):
        self.hist[k] = self.hist.get(k, 0) + n


def check_program(ck, model, st, ps, recipe, combos, origin):
    import pyteal as pt
    from pyteal.compiler.scratchslots import assignScratchSlotsToSubroutines

    try:
        B = GG.build(recipe)
    except Exception as e:  # generator produced something the constructors refuse: not a case
        ps.h("build-refused:" + type(e).__name__)
        return
    orc = GG.Oracle(recipe)
    must, exact, dead = orc.verdict()
    expect = "reject" if exact else ("either" if dead else "accept")
    ps.h("programs")
    ps.h("programs_must_reject" if must else ("programs_rule_reject_only" if exact else ("programs_dead_load_only" if dead else "programs_clean")))
    rj = json.dumps(recipe, sort_keys=True)
    offending_vars = set(exact.values()) | set(dead.values())
    for (version, opt) in combos:
        tagc = dict(kind="program", origin=origin, recipe=recipe, version=version, scratch_slots=opt,
                    oracle=dict(must=sorted(must), rule=sorted(exact), dead=sorted(dead)))
        # ---- graph level: the routine graphs the compiler builds, real vs model vs reachability ----
        model_first = None
        try:
            starts, global_slots = routine_graphs(B.main, version, opt)
        except BaseException as e:  # noqa
            if isinstance(e, (KeyboardInterrupt, SystemExit)):
                raise
            starts = None
            ps.h("graph-pipeline:" + ":".join(map(str, classify_exception(e)))[:60])
        if starts is not None:
            any_err = False
            incomplete = False
            for sub, start in starts.items():
                res = check_one_graph(ck, model, st, start, global_slots, dict(tagc, routine=(sub.name() if sub is not None else "main")))
                if res is None or not isinstance(res[2], list):
                    incomplete = True
                    continue
                ex, real, mod = res
                if mod and not any_err:
                    model_first = ex.expr_of_tag[mod[0]]
                    any_err = True
            # the real driver on the same graphs (mutates them: slot assignment) — raise or not, and which load
            try:
                assignScratchSlotsToSubroutines(starts)
                got = ("accept", None)
            except BaseException as e:  # noqa
                if isinstance(e, (KeyboardInterrupt, SystemExit)):
                    raise
                got = classify_exception(e)
            want = ("reject", model_first) if any_err else ("accept", None)
            ck.count(("assign", rj, version, opt))
            if not incomplete and (got[0] != want[0] or (got[0] == "reject" and got[1] is not want[1])):
                ps.assign_mismatch.append(dict(tagc, real=[got[0], repr(got[1])], model=[want[0], repr(want[1])]))
        # ---- program level: compileTeal against the recipe oracle ----
        out = compile_outcome(B.main, version, opt)
        ck.count(("compile", rj, version, opt), nontrivial=bool(must or exact or dead or len(rj) > 200))
        ps.h("outcome:%s/expected:%s" % (out[0] if out[0] != "crash" else "crash:" + out[1], expect))
        ps.h("combo:v%d/%s" % (version, opt))
        if out[0] == "accept":
            if must:
                ps.accepted_unstored.append(tagc)
            elif exact:
                ps.exact_disagree.append(dict(tagc, real="accept", expected="reject"))
        elif out[0] == "reject":
            if not exact and not dead:
                ps.exact_disagree.append(dict(tagc, real="reject", expected="accept"))
            else:
                site = B.site_of_expr.get(id(out[1]))
                slot = getattr(out[1], "slot", None)
                var = B.var_of_slot.get(id(slot))
                if site is not None:
                    okk = site in exact or site in dead
                else:
                    okk = var in offending_vars
                if not okk:
                    ps.wrong_site.append(dict(tagc, named_site=site, named_var=var))
                ps.h("named:" + ("live" if site in exact else "dead" if site in dead else "by-variable" if site is None else "WRONG"))
        elif out[0] == "crash":
            if must:
                ps.crash_masks.append(dict(tagc, crash=out[1]))
        else:
            if must:
                ps.other_error.append(dict(tagc, error=out[1]))
            else:
                ps.h("other-error:" + out[1][:50])
        if len(ck.samples) < 5 and (must or dead) and version in (6, 9):
            ck.sample({"recipe": recipe, "version": version, "scratch_slots": opt, "oracle": dict(must=must, rule=exact, dead=dead), "compileTeal": out[0]})


# ---------------------------------------------------------------------------------------------
def replay(ck, model, path):
    d = json.load(open(path))
    st, ps = Stats(), ProgStats()
    if d.get("kind") == "graph" and "plain" in d:
        run_plain(ck, model, st, d["plain"], "replay")
        print("graph replay: mismatch=%d missed=%d spurious=%d" % (len(st.mismatch), len(st.missed), len(st.spurious)))
        for x in st.mismatch + st.missed + st.spurious:
            print(json.dumps(x, default=repr)[:1500])
        return 1 if (st.mismatch or st.missed or st.spurious or st.crash) else 0
    if d.get("kind") == "program":
        check_program(ck, model, st, ps, d["recipe"], [(d["version"], d.get("scratch_slots"))], "replay")
        bad = ps.accepted_unstored or ps.wrong_site or ps.other_error or ps.exact_disagree or ps.assign_mismatch or st.mismatch or st.missed or st.spurious
        print("program replay:", json.dumps(ps.hist), "still failing" if bad else "passes")
        return 1 if bad else 0
    print("replay file describes a broken proof/correspondence without a concrete input; re-run ./check C17")
    return 2


def main(argv):
    args = parse_args(argv)
    ck = Check("C17", args.tier)
    thorough = args.tier == "thorough"
    import pyteal as pt  # noqa

    if args.replay:
        model = Model("c17")
        rc = replay(ck, model, args.replay)
        model.close()
        return rc

    ck.run_proofs("Props/C17.v", ["Proofs/ValidateSlotsProof.v"], extra_targets=["Extract/Main_c17.vo"])
    model = Model("c17")
    st, ps = Stats(), ProgStats()
    t_start = time.time()

    # ---------------- A. hand-built graphs ----------------
    corpus = list(CORPUS)
    if os.path.isdir(CORPUS_DIR):
        for f in sorted(os.listdir(CORPUS_DIR)):
            if f.endswith(".json"):
                corpus.append(json.load(open(os.path.join(CORPUS_DIR, f))))
    for i, plain in enumerate(corpus):
        run_plain(ck, model, st, plain, "corpus-%d" % i)
    n_corpus = st.hist.get("graphs", 0)
    for plain in G.exhaustive_plain(1, OPLISTS_1):
        run_plain(ck, model, st, plain, "exhaustive-1")
    for plain in G.exhaustive_plain(2, OPLISTS_1):
        run_plain(ck, model, st, plain, "exhaustive-2")
    n3 = 0
    for k, plain in enumerate(G.exhaustive_plain(3, OPLISTS_3, allow_none_cond=False)):
        # 3 blocks, one slot, 3 op lists, 4+9 successor shapes: 59319 graphs; quick takes every 9th (offset by seed)
        if thorough or k % 9 == ck.seed % 9:
            run_plain(ck, model, st, plain, "exhaustive-3")
            n3 += 1
    n_exh = st.hist.get("graphs", 0) - n_corpus
    n_rand = 200000 if thorough else 12000
    for k in range(n_rand):
        nb = ck.rng.choice([1, 2, 3, 3, 4, 4, 5, 6, 7, 8, 10, 12])
        ns = ck.rng.choice([1, 1, 2, 2, 3, 4, 5])
        plain = G.random_plain(ck.rng, nb, ns, ck.rng.choice(["mixed", "mixed", "mixed", "dag", "chain"]))
        run_plain(ck, model, st, plain, "random")
    ck.coverage["handbuilt_graphs"] = {"corpus": n_corpus, "exhaustive": n_exh, "exhaustive_3_blocks": n3, "random": n_rand,
                                       "exhaustive_3_complete": bool(thorough)}
    t_graphs = time.time() - t_start
    n_hand = st.hist.get("graphs", 0)

    # ---------------- B. generated programs ----------------
    versions = [6, 7, 8, 9, 10]
    matrix = [(v, o) for v in versions for o in (None, True, False)]
    for i, rec in enumerate(PROGRAM_CORPUS):
        check_program(ck, model, st, ps, rec, matrix, "program-corpus-%d" % i)
    small = GG.exhaustive_small(1 if thorough else 0)
    for i, rec in enumerate(small):
        combos = matrix if thorough else [(6, None), (9, None), (10, False), (8, True)]
        check_program(ck, model, st, ps, rec, combos, "exhaustive-small-%d" % i)
    # several routines with the same name, exactly one of them offending (any position)
    for rec, name in GG.same_name_family():
        check_program(ck, model, st, ps, rec, matrix if thorough else [(6, None), (8, None), (9, None), (10, True)], name)
    # many conditionally stored variables: 2^k slot sets, the unstored path is the last one the real walk reaches
    fam = [(GG.many_conditional_stores(13, 0), "state-space-13-late"), (GG.many_conditional_stores(12, 11), "state-space-12-early"),
           (GG.many_conditional_stores(12, 0, first_unconditional=True), "state-space-12-clean")]
    if thorough:
        fam += [(GG.many_conditional_stores(14, 0), "state-space-14-late"), (GG.many_conditional_stores(13, 6), "state-space-13-middle")]
    for rec, name in fam:
        check_program(ck, model, st, ps, rec, [(6, None), (9, None), (8, True)], name)
    n_random_prog = 12000 if thorough else 1300
    for i in range(n_random_prog):
        gen = GG.Gen(ck.rng, "small" if ck.rng.random() < 0.7 else "large")
        rec = gen.program()
        combos = matrix if (thorough and i % 3 == 0) else ck.rng.sample(matrix, 3)
        check_program(ck, model, st, ps, rec, combos, "random-%d" % i)
    ck.coverage["programs"] = ps.hist.get("programs", 0)
    ck.coverage["program_outcomes"] = {k: v for k, v in sorted(ps.hist.items())}
    ck.coverage["graph_stats"] = {k: v for k, v in sorted(st.hist.items())}
    ck.coverage["routine_graphs_from_programs"] = st.hist.get("graphs", 0) - n_hand
    ck.coverage["wall_graphs_s"] = round(t_graphs, 1)
    ck.coverage["wall_programs_s"] = round(time.time() - t_start - t_graphs, 1)

    # ---------------- known findings: replay the witnesses against the real code ----------------
    for f in ck.findings:
        w = f.get("witness", {})
        if "recipe" not in w:
            continue
        try:
            B = GG.build(w["recipe"])
            must = GG.Oracle(w["recipe"]).verdict()[0]
            out = compile_outcome(B.main, w["version"], w.get("scratch_slots"))
        except Exception as e:  # noqa
            out = ("error", repr(e))
            must = {}
        if must and out[0] == "crash" and out[1] == w.get("crash"):
            ck.known(f["id"], "%s (witness still aborts with %s at version %d)" % (f["what"], out[1], w["version"]))

    # ---------------- verdict ----------------
    def known_crash(c):
        return ck.match_known(lambda f: f.get("witness", {}).get("crash") == c["crash"])

    for c in ps.crash_masks:
        f = known_crash(c)
        if f is not None:
            ck.known(f["id"], "%s (seen on a generated program: %s at version %d)" % (f["what"], c["crash"], c["version"]))
        else:
            ck.violation("a program that reads a local variable before writing it does not get the load-before-store error: compilation aborts with %s" % c["crash"], c)
    ck.coverage["must_reject_programs_aborted_by_known_crash"] = len(ps.crash_masks)

    concrete = 0
    for x in st.missed[:3]:
        concrete += 1
        if x.get("kind") == "graph" and "plain" in x:
            x = dict(x, plain=G.shrink_plain(x["plain"], lambda p: plain_fails(model, p)))
        ck.violation("validateSlots does not report a load that has a control-flow path without a store (%s); real errors %s, unstored loads %s"
                     % (x.get("origin"), x.get("real"), x.get("oracle_live")), x)
    for x in ps.accepted_unstored[:3]:
        concrete += 1
        small_r = shrink_recipe(x["recipe"], lambda r: program_must_accepted(r, x["version"], x["scratch_slots"]))
        ck.violation("compileTeal (version %d, scratch_slots=%s) accepts a program in which some path reads a routine-local variable before writing it"
                     % (x["version"], x["scratch_slots"]), dict(x, recipe=small_r, original_recipe=x["recipe"]))
    for x in ps.wrong_site[:3]:
        concrete += 1
        ck.violation("the load-before-store error names a load that has no unstored path (site %s, variable %s)" % (x["named_site"], x["named_var"]), x)
    for x in ps.other_error[:3]:
        concrete += 1
        ck.violation("a program that reads a local variable before writing it fails with an unrelated error: %s" % x["error"], x)
    for x in st.crash[:3]:
        concrete += 1
        ck.violation("validateSlots raised %s on a finite block graph" % x["exception"][0], x)

    broken = []
    if st.mismatch:
        broken.append(("error list of TealBlock.validateSlots differs from Comp/ValidateSlots.v validate_slots on %d graphs" % len(st.mismatch), st.mismatch[0]))
    if st.spurious:
        broken.append(("validateSlots reports a load without an unstored scan path on %d graphs (C17_validate_exact no longer describes the code)" % len(st.spurious), st.spurious[0]))
    if ps.assign_mismatch:
        broken.append(("assignScratchSlotsToSubroutines raise/accept or the load named by errors[0] differs from the model on %d cases" % len(ps.assign_mismatch), ps.assign_mismatch[0]))
    if ps.exact_disagree:
        broken.append(("compileTeal outcome differs from the recipe-level rule (direct stores only) on %d cases" % len(ps.exact_disagree), ps.exact_disagree[0]))
    if not ck.proof_ok:
        broken.append(("proof obligation broken: Props/C17.v or Proofs/ValidateSlotsProof.v no longer checks", {"log": ck.proof_log[-1500:]}))
    if broken and not concrete:
        n_searched = st.hist.get("graphs", 0) + sum(v for k, v in ps.hist.items() if k.startswith("combo:"))
        for what, first in broken[:3]:
            ck.violation("correspondence/proof broken: %s; the oracles (per-slot reachability on %d graphs, recipe definite-assignment on %d compilations) found no unstored path that is accepted"
                         % (what, st.hist.get("graphs", 0), n_searched - st.hist.get("graphs", 0)),
                         {"kind": "correspondence", "broken": what, "first": first}, no_failing_input=True)
    ck.coverage["disagreements_checked"] = len(st.mismatch) + len(st.missed) + len(st.spurious) + len(ps.assign_mismatch) + len(ps.exact_disagree) + len(ps.accepted_unstored) + len(ps.wrong_site)
    model.close()
    return ck.finish(
        level="proof",
        rule="graphs: real TealSimpleBlock/TealConditionalBlock graphs (fixed corpus; every 1- and 2-block graph over one slot with 7 op lists and all successor shapes; "
             "3-block graphs over 3 op lists (complete in thorough, every 9th in quick); seeded random graphs of 1..12 blocks / 1..5 slots with cycles, diamonds, ops after terminators, "
             "shared/None source expressions, multi-slot and int-argument ops) and every routine graph of every generated program (compileSubroutine + optimiser as in _compile_impl): "
             "ordered error list of validateSlots == extracted model, and per-slot reachability oracle (live unstored loads must be reported, reported loads must have a scan path). "
             "programs: systematic one-variable shapes (if/cond/while/for x bodies of store/read/break/continue/return) and seeded random recipes (ScratchVar auto/reserved/abi, MaybeValue, "
             "DynamicScratchVar, subroutines with locals, shared slots, by-reference ScratchVar, recursion) x versions 6..10 x scratch_slots None/True/False: compileTeal outcome vs an "
             "independent definite-assignment analysis of the recipe. distinct = distinct exported graph+init / distinct (recipe, version, option); non-trivial = graph with more than "
             "one block or op / recipe with an unstored or dead load or of non-trivial size",
        trusted_base=[
            "Theorems are about Comp/ValidateSlots.v (hand model of TealBlock.validateSlots), tied to the code by exact comparison of ordered error lists on every run",
            "Abstraction of an op to Store/Load/Term/Other, of a ScratchSlot to its id (distinct objects never share an id once slot assignment reaches validateSlots; checked per graph) "
            "and of an error to the identity of its source expression is done by harness/c17_graph.export_graph (trusted glue)",
            "C17_compiled_never_reads_unwritten_partial speaks about the abstract non-deterministic execution of the block graph, not about the AVM run of the flattened TEAL",
            "Recipe-level oracle (harness/c17_gen.Oracle) and per-slot reachability oracle (harness/c17_graph.graph_oracle): hand-written, independent of the model",
            "Python's recursion limit is not modelled (fuel stands for the call stack; C20 covers RecursionError)",
            "Extraction: ExtrOcamlBasic + ExtrOcamlNativeString, driver.ml (read-line loop)",
        ])


if __name__ == "__main__":
    sys.exit(run_main(main))
