"""C05 — generator of PyTeal programs WITH SUBROUTINES (recipes as in build.py, a few extra nodes) and the
builder that turns them into real PyTeal objects through the public API only.

Extra recipe nodes (on top of build.py's):
  ('param', i)                     by-value parameter i of the enclosing subroutine (PyTeal type: anytype)
  ('pload', i, TY) / ('pstore', i, e)   load / store through a ScratchVar passed by reference
  ('svar', KEY, TY)                a ScratchVar object (only as an argument for a by-reference parameter)
  ('abiget', K, TY) / ('abiset', K, TY, e)  a subroutine-local ABI variable (abi.Uint64 / abi.DynamicBytes);
                                   lives in the frame when frame pointers are on
  ('multi', 'box_get', (), (name,), 2, KEY)  MaybeValue with a bytes value slot (KEY,0) and a uint64 flag (KEY,1)
  ('aparam', i, TY)                ABI-typed parameter i of an ABIReturnSubroutine: .get()
  ('oset', e)                      output.set(e) inside an ABIReturnSubroutine
  ('abicall', KEY, args, OUTK)     call of an ABIReturnSubroutine: arguments are put into fresh ABI variables, the
                                   result (if any) is stored into the ABI variable OUTK (read it with 'abiget')

A subroutine definition: dict(key, kinds ('v' by value | 'r' ScratchVar by reference | 'a' ABI value of an
ABIReturnSubroutine, whose result goes through the `output` keyword argument), ptypes (intended
'u'/'b' of each argument - every call site passes that type), ret ('n'|'u'|'b'), rec (recursion group or
None), body recipe).  Recursive subroutines take their recursion budget as argument 0 and return a base
value when it is 0, so every generated program terminates."""
from build import Builder, BuildError
from gen_prog import Gen, I, B


class C05Builder(Builder):
    def __init__(self, pt, subdefs):
        super().__init__(pt)
        self.svars = {}
        self.abivars = {}
        self.output = None
        self.ntmp = 0
        self.subdefs = subdefs
        for sd in subdefs:
            self.subs[sd["key"]] = {"wrapper": self.make_wrapper(sd), "id": None, "ret": sd["ret"]}

    def make_wrapper(self, sd):
        pt = self.pt
        n = len(sd["kinds"])
        outer = self

        def body(*args, output=None):
            saved = (outer.params, outer.abivars, outer.output)
            outer.params, outer.abivars, outer.output = list(args), {}, output
            try:
                return outer.build(sd["body"])
            finally:
                outer.params, outer.abivars, outer.output = saved

        if sd.get("abi"):
            names = ["a%d" % i for i in range(n)]
            tyname = {"u": "abi.Uint64", "b": "abi.DynamicBytes"}
            params = ", ".join("%s: %s" % (nm, tyname[t]) for nm, t in zip(names, sd["ptypes"]))
            if sd["ret"] != "n":
                params += (", " if params else "") + "*, output: %s" % tyname[sd["ret"]]
                call = "body(%s, output=output)" % ", ".join(names) if names else "body(output=output)"
            else:
                call = "body(%s)" % ", ".join(names)
            src = "def %s(%s) -> Expr:\n    return %s\n" % (sd["key"], params, call)
            env = {"body": body, "abi": pt.abi, "Expr": pt.Expr}
            exec(src, env)
            return pt.ABIReturnSubroutine(env[sd["key"]])

        ann = {}
        names = ["a%d" % i for i in range(n)]
        for i, k in enumerate(sd["kinds"]):
            ann[names[i]] = pt.ScratchVar if k == "r" else pt.Expr
        src = "def fn(%s):\n    return body(%s)\n" % (", ".join(names), ", ".join(names))
        env = {"body": body}
        exec(src, env)  # a plain def with explicit positional parameters, as PyTeal's signature inspection wants
        fn = env["fn"]
        fn.__annotations__ = dict(ann)
        fn.__name__ = sd["key"]
        return pt.Subroutine(self.TY[sd["ret"]], name=sd["key"])(fn)

    def svar(self, key, ty):
        if key not in self.svars:
            sv = self.pt.ScratchVar(self.TY[ty])
            if key in self.slots:
                sv.slot = self.slots[key]
            else:
                self.slots[key] = sv.slot
            self.svars[key] = sv
        return self.svars[key]

    def abivar(self, k, ty):
        if k not in self.abivars:
            self.abivars[k] = self.pt.abi.Uint64() if ty == "u" else self.pt.abi.DynamicBytes()
        return self.abivars[k]

    def build(self, r):
        pt = self.pt
        if isinstance(r, tuple) and r:
            k = r[0]
            if k == "pload":
                return self.params[r[1]].load()
            if k == "pstore":
                return self.params[r[1]].store(self.build(r[2]))
            if k == "svar":
                return self.svar(r[1], r[2])
            if k == "abiget":
                return self.abivar(r[1], r[2]).get()
            if k == "abiset":
                return self.abivar(r[1], r[2]).set(self.build(r[3]))
            if k == "aparam":
                return self.params[r[1]].get()
            if k == "oset":
                return self.output.set(self.build(r[1]))
            if k == "abicall":
                sd = [x for x in self.subdefs if x["key"] == r[1]][0]
                w = self.subs[r[1]]["wrapper"]
                sets, vs = [], []
                for t, e in zip(sd["ptypes"], r[2]):
                    self.ntmp += 1
                    v = self.abivar("tmp%d" % self.ntmp, t)
                    sets.append(v.set(self.build(e)))
                    vs.append(v)
                if r[3] is None:
                    return pt.Seq(*(sets + [w(*vs)]))
                return pt.Seq(*(sets + [w(*vs).store_into(self.abivar(r[3], sd["ret"]))]))
            if k == "multi" and r[1] == "box_get":
                mv = pt.App.box_get(self.build(r[3][0]))
                self.multi[r[5]] = mv
                for i, s in enumerate(mv.output_slots):
                    self.slots[(r[5], i)] = s
                return mv
            if k == "call":
                w = self.subs[r[1]]["wrapper"]
                return w(*[self.build(x) for x in r[2]])
        return super().build(r)


def mk_subdefs(rng, version, nsubs):
    """Signatures first (bodies refer to them): a chain of non-recursive subroutines plus recursion groups."""
    subs = []
    i = 0
    while i < nsubs:
        grp = None
        size = 1
        if version >= 4 and rng.random() < 0.45:
            size = rng.choice([1, 1, 2, 2, 3])
            grp = "g%d" % i
        for _ in range(size):
            nargs = rng.choice([0, 1, 1, 2, 2, 3, 4])
            if grp is not None and nargs == 0:
                nargs = 1
            ptypes = [rng.choice("uub") for _ in range(nargs)]
            kinds = ["v"] * nargs
            is_abi = False
            if grp is not None:
                ptypes[0] = "u"
            elif version >= 6 and rng.random() < 0.2:
                is_abi = True
                kinds = ["a"] * nargs
            else:
                for a in range(nargs):
                    if rng.random() < 0.15:
                        kinds[a] = "r"
            subs.append({"key": "s%d" % len(subs), "kinds": kinds, "ptypes": ptypes,
                         "ret": rng.choice(["n", "u", "u", "b"]), "rec": grp, "body": None,
                         "nabi": 0, "abi": is_abi})
            i += 1
    return subs


class SubGen(Gen):
    """Gen extended with parameters, calls, early returns, by-reference access and ABI locals."""

    def __init__(self, rng, version, app, subdefs, cur, size, use_abi, prefix, anytype_free=False):
        super().__init__(rng, version, app, size=size)
        self.subdefs = subdefs
        self.cur = cur                      # index into subdefs or None (main routine)
        self.prefix = prefix
        self.use_abi = use_abi
        self.abi = {}                       # k -> ty
        self.anytype_free = anytype_free
        self.callp = 0.3

    # which subroutines may be called from here
    def callees(self, ret):
        out = []
        for j, sd in enumerate(self.subdefs):
            if sd["ret"] != ret:
                continue
            if self.cur is None:
                out.append(j)
            else:
                me = self.subdefs[self.cur]
                if j > self.cur or (me["rec"] is not None and sd["rec"] == me["rec"]):
                    out.append(j)
        return out

    def new_var(self, ty):
        key = "%sv%d" % (self.prefix, len(self.vars))
        self.vars[key] = ty
        return key

    def call(self, j, d):
        sd = self.subdefs[j]
        me = self.subdefs[self.cur] if self.cur is not None else None
        args = []
        for a, (k, t) in enumerate(zip(sd["kinds"], sd["ptypes"])):
            if a == 0 and sd["rec"] is not None:
                if me is not None and me["rec"] == sd["rec"]:
                    args.append(("op", "-", (), "u", (("param", 0), I(1))))
                else:
                    args.append(I(self.r.choice([0, 1, 2, 3])))
            elif k == "r":
                cands = [key for key, ty in self.vars.items() if ty == t]
                key = self.r.choice(cands) if cands and self.r.random() < 0.7 else self.new_var(t)
                args.append(("svar", key, t))
            else:
                args.append(self.expr(t, min(d - 1, 2)))
        if sd.get("abi"):
            self.note("abicall")
            if sd["ret"] == "n":
                return ("abicall", sd["key"], tuple(args), None)
            self.nout = getattr(self, "nout", 0) + 1
            outk = "%so%d" % (self.prefix, self.nout)
            return ("seq", ("abicall", sd["key"], tuple(args), outk), ("abiget", outk, sd["ret"]))
        self.note("call")
        return ("call", sd["key"], tuple(args))

    def leaf(self, ty):
        if self.cur is not None and self.r.random() < 0.35:
            me = self.subdefs[self.cur]
            want = ty if ty != "a" else self.r.choice("ub")
            c = [a for a, (k, t) in enumerate(zip(me["kinds"], me["ptypes"])) if t == want]
            if c:
                a = self.r.choice(c)
                self.note("leaf:param")
                if me["kinds"][a] == "r":
                    return ("pload", a, want)
                if me["kinds"][a] == "a":
                    return ("aparam", a, want)
                if not self.anytype_free:
                    return ("param", a)
        if self.abi and self.r.random() < 0.3:
            want = ty if ty != "a" else self.r.choice("ub")
            c = [k for k, t in self.abi.items() if t == want]
            if c:
                self.note("leaf:abiget")
                return ("abiget", self.r.choice(c), want)
        return super().leaf(ty)

    def expr(self, ty, d, no_ctrl=True):
        if d > 0 and self.budget > 0 and self.r.random() < self.callp:
            want = ty if ty != "a" else self.r.choice("ub")
            c = self.callees(want)
            if c:
                self.budget -= 1
                return self.call(self.r.choice(c), d)
        if d > 0 and self.app and self.v >= 8 and self.r.random() < 0.06:
            self.nmulti += 1
            key = "%sbx%d" % (self.prefix, self.nmulti)
            mv = ("multi", "box_get", (), (B(self.r.choice([b"b1", b"b2", b"zz"])),), 2, key)
            self.note("expr:box_get")
            want = ty if ty != "a" else self.r.choice("ub")
            flag = ("op", "load", (("slot", (key, 1)),), "u", ())
            val = ("op", "load", (("slot", (key, 0)),), "b", ())
            if want == "u":
                return ("seq", mv, ("nary", "+", "u", (flag, ("op", "len", (), "u", (val,)))))
            return ("seq", mv, ("nary", "concat", "b", (val, B(b"!"))))
        return super().expr(ty, d, no_ctrl)

    def stmt(self, d, in_loop, no_ctrl=False):
        r = self.r
        me = self.subdefs[self.cur] if self.cur is not None else None
        x = r.random()
        if x < 0.12:
            c = self.callees("n")
            if c:
                self.budget -= 1
                return self.call(r.choice(c), d)
        if x < 0.2:
            want = r.choice("ub")
            c = self.callees(want)
            if c:
                self.budget -= 1
                return ("op", "pop", (), "n", (self.call(r.choice(c), d),))
        if me is not None and x < 0.3 and not no_ctrl:
            self.note("stmt:early-return")
            if me.get("abi") and me["ret"] != "n":
                return ("if", self.expr("u", d - 1), ("seq", ("oset", self.expr(me["ret"], d - 1)), ("return",)))
            if me["ret"] == "n":
                return ("if", self.expr("u", d - 1), ("return",))
            return ("if", self.expr("u", d - 1), ("return", self.expr(me["ret"], d - 1)))
        if me is not None and x < 0.36:
            c = [a for a, k in enumerate(me["kinds"]) if k == "r"]
            if c:
                a = r.choice(c)
                self.note("stmt:pstore")
                return ("pstore", a, self.expr(me["ptypes"][a], d - 1))
        if self.use_abi and x < 0.45:
            ty = r.choice("uub")
            cands = [k for k, t in self.abi.items() if t == ty]
            if cands and r.random() < 0.5:
                k = r.choice(cands)
            else:
                self.nabi_keys = getattr(self, "nabi_keys", 0) + 1      # reserve the name before generating the operand
                k = "%sabi%d" % (self.prefix, self.nabi_keys)
            e = self.expr(ty, d - 1)
            self.abi[k] = ty
            self.note("stmt:abiset")
            return ("abiset", k, ty, e)
        s = super().stmt(d, in_loop, no_ctrl)
        if me is not None and isinstance(s, tuple) and s and s[0] == "return":
            # Gen's main-routine Return(uint64): adapt to the subroutine's declared type
            if me.get("abi") and me["ret"] != "n":
                return ("seq", ("oset", self.expr(me["ret"], 1)), ("return",))
            if me["ret"] == "n":
                return ("return",)
            if me["ret"] == "b":
                return ("return", self.expr("b", 1))
        return s

    def sub_body(self, depth):
        me = self.subdefs[self.cur]
        r = self.r
        stmts = []
        if me["rec"] is not None:
            base = {"n": ("return",), "u": ("return", self.const_u()), "b": ("return", self.const_b())}[me["ret"]]
            stmts.append(("if", ("op", "==", (), "u", (("param", 0), I(0))), base))
        if r.random() < 0.7:
            ty = r.choice("ub")
            key = self.new_var(ty)
            stmts.append(("op", "store", (("slot", key),), "n", (self.expr(ty, 1),)))
        for _ in range(r.choice([0, 1, 2, 3])):
            stmts.append(self.stmt(depth, False))
        tail = () if me["ret"] == "n" else (self.expr(me["ret"], depth),)
        if me.get("abi") and tail:
            tail = (("oset", tail[0]),)
        # every local variable is initialised on entry (bytes variables must hold bytes), so no path loads it unset
        declared = set(s[2][0][1] for s in stmts if isinstance(s, tuple) and len(s) > 2 and s[0] == "op" and s[1] == "store")
        init = tuple(("op", "store", (("slot", k),), "n", ((I(0) if t == "u" else B(b"")),)) for k, t in self.vars.items())
        guard = tuple(stmts[:1]) if me["rec"] is not None else ()
        rest = tuple(stmts[1:]) if me["rec"] is not None else tuple(stmts)
        return ("seq",) + guard + init + rest + tail


def gen_program(rng, version, app, fp, anytype_free=False):
    """-> (subdefs, main recipe, init recipe prefix, histogram)"""
    nsubs = rng.choice([1, 2, 2, 3, 4, 5]) if version >= 4 else 0
    subdefs = mk_subdefs(rng, version, nsubs)
    hist = {}
    allvars = {}
    use_abi = bool(fp) and version >= 8 and rng.random() < 0.6
    for j, sd in enumerate(subdefs):
        g = SubGen(rng, version, app, subdefs, j, rng.choice([6, 10, 16]), use_abi, "s%d_" % j, anytype_free)
        sd["body"] = g.sub_body(rng.choice([1, 2, 2, 3]))
        sd["nabi"] = len(g.abi)
        sd["nvars"] = len(g.vars)
        allvars.update(g.vars)
        for k, v in g.hist.items():
            hist[k] = hist.get(k, 0) + v
    g = SubGen(rng, version, app, subdefs, None, rng.choice([8, 14, 24]), False, "m_", anytype_free)
    g.callp = 0.45
    main = g.program(depth=rng.choice([2, 3]), shape=rng.choice(["seq", "seq", "expr"]))
    allvars.update(g.vars)
    for k, v in g.hist.items():
        hist[k] = hist.get(k, 0) + v
    # initialise every slot the main routine may load (bytes variables must hold bytes)
    init = tuple(("op", "store", (("slot", k),), "n", ((I(0) if t == "u" else B(b"")),)) for k, t in g.vars.items())
    if init:
        main = ("seq",) + init + (main,)
    return subdefs, main, hist


def call_graph(subdefs):
    def calls(r, acc):
        if isinstance(r, tuple):
            if r and r[0] == "call":
                acc.add(r[1])
            for x in r:
                calls(x, acc)
        return acc
    return {sd["key"]: calls(sd["body"], set()) for sd in subdefs}


def uses_param_by_value(r):
    if isinstance(r, tuple):
        if r and r[0] == "param":
            return True
        return any(uses_param_by_value(x) for x in r)
    return False
