"""C12 — assembleConstants changes how constants load, not their values.

(1) proofs: Props/C12.v over Comp/Constants.v (+ ConstantsLit.v);
(2) correspondence: real extract*Value / createConstantBlocks / compileTeal(assembleConstants=True) vs the
    extracted model (binary pv_c12) — exact text;
(3) semantic oracle, independent of the model: the real output pair (pseudo-op text, block text) is read by
    the extracted TEAL parser (AVM/Parse.v), block indices are resolved, and the two site-by-site value
    sequences must be identical; whole programs are also executed on the extracted AVM;
(4) known findings replayed; (5) verdict."""
import json
import sys

from common import *  # noqa
import c12_gen as G

ensure_env()


# ---------------------------------------------------------------------------------------------
# real side
# ---------------------------------------------------------------------------------------------
def real_ccb(recipe):
    from pyteal.compiler.constants import createConstantBlocks
    comps = G.build_real(recipe)
    out = createConstantBlocks(comps)
    return [c.assemble() for c in out]


def real_assemble(recipe):
    return [c.assemble() for c in G.build_real(recipe)]


def real_extract(kind, args):
    import pyteal as pt
    from pyteal.compiler import constants as C
    from pyteal.ir.labelref import LabelReference
    opk = {"int": pt.Op.int, "byte": pt.Op.byte, "addr": pt.Op.addr, "method": pt.Op.method_signature}[kind]
    fn = {"int": C.extractIntValue, "byte": C.extractBytesValue, "addr": C.extractAddrValue, "method": C.extractMethodSigValue}[kind]
    v = fn(pt.TealOp(None, opk, *[LabelReference(a[1]) if isinstance(a, tuple) else a for a in args]))
    if isinstance(v, bool):
        raise TypeError("bool")
    if isinstance(v, int):
        return [S("int"), v]
    if isinstance(v, (bytes, bytearray)):
        return [S("bytes"), bytes(v)]
    return [S("tmpl"), v]


def compile_pair(pt, prog, mode, version, spy):
    """(text without the option, text with it, recorded createConstantBlocks input) — each may be ('exc', ...)."""
    a = call_real(pt.compileTeal, prog, mode, version=version, assembleConstants=False)
    spy["in"] = None
    b = call_real(pt.compileTeal, prog, mode, version=version, assembleConstants=True)
    return a, b, spy["in"]


# ---------------------------------------------------------------------------------------------
# semantic oracle on a text pair
# ---------------------------------------------------------------------------------------------
def tmpl_names(text):
    import re
    return sorted(set(re.findall(r"TMPL_[A-Z0-9_]+", text)), key=lambda s: (-len(s), s))


def has_tmpl_op(text):
    """a placeholder in operand position of a constant pseudo-op"""
    import re
    return re.search(r"^(int|byte|addr|pushint|pushbytes) TMPL_|^(intcblock|bytecblock) .*TMPL_", text, re.M) is not None


def substitute(text, kinds, addr_as_bytes=False):
    """Template instantiation at token level: a placeholder is replaced where it is the operand of a constant
    pseudo-op / push op or an entry of a block line (never inside a string literal or a comment).
    kinds: name -> 'int'|'bytes'|'addr' (how the program declares the placeholder)."""
    import re

    def value(name, ctx):
        k = "int" if ctx == "int" else ("addr" if ctx == "addr" else kinds.get(name, "bytes"))
        if k == "int":
            return str(1000 + int.from_bytes(G.sha512_256(name.encode())[:6], "big"))
        if k == "addr":
            key = G.sha512_256(b"key" + name.encode())
            return ("0x" + key.hex()) if (addr_as_bytes and ctx != "addr") else G.make_address(key)
        return "0x" + G.sha512_256(name.encode())[:5].hex()

    out = []
    for line in text.split("\n"):
        m = re.match(r"^(int|pushint|byte|pushbytes|addr) (TMPL_[A-Z0-9_]+)( .*)?$", line)
        if m and m.group(2) in kinds:
            ctx = {"int": "int", "pushint": "int", "addr": "addr"}.get(m.group(1), "bytes")
            line = "%s %s%s" % (m.group(1), value(m.group(2), ctx), m.group(3) or "")
        elif line.startswith("intcblock ") or line.startswith("bytecblock "):
            toks = line.split(" ")
            ctx = "int" if toks[0] == "intcblock" else "bytes"
            line = " ".join([toks[0]] + [value(t, ctx) if t in kinds else t for t in toks[1:]])
        out.append(line)
    return "\n".join(out)


class Oracle:
    def __init__(self, model):
        self.m = model

    def norm(self, text, msel):
        if any(ord(c) > 255 for c in text):
            return None
        r = self.m.ask((S("norm"), (S("msel"),) + tuple((k, v) for k, v in msel.items()), text))
        if r and r[0] == S("ok"):
            return {"stmts": r[1][1:], "max": r[2][1], "intc": r[3][1:], "bytec": r[4][1:]}
        return None

    def compare(self, text_a, text_b, msel, kinds):
        """-> (status, detail).  status: 'same' | 'a-invalid' | 'differ' | 'tmpl-addr' ; detail has max index."""
        has_addr_tmpl = any(k == "addr" for k in kinds.values())
        na = self.norm(substitute(text_a, kinds), msel)
        if na is None or any(isinstance(x, list) and x and x[0] == S("bad-index") for x in na["stmts"]):
            return "a-invalid", {}     # the pseudo-op text is not a program (unreadable, or loads from a block it never declares)
        nb = self.norm(substitute(text_b, kinds), msel)
        if nb is not None and nb["stmts"] == na["stmts"]:
            return "same", {"max": nb["max"], "nblock": len(nb["intc"]) + len(nb["bytec"])}
        if has_addr_tmpl:
            nb2 = self.norm(substitute(text_b, kinds, addr_as_bytes=True), msel)
            if nb2 is not None and nb2["stmts"] == na["stmts"]:
                return "tmpl-addr", {"max": nb2["max"]}
        first = None
        if nb is not None:
            for i, (x, y) in enumerate(zip(na["stmts"], nb["stmts"])):
                if x != y:
                    first = {"index": i, "pseudo_op_form": repr(x), "block_form": repr(y)}
                    break
            if first is None:
                first = {"length_a": len(na["stmts"]), "length_b": len(nb["stmts"])}
        return "differ", {"first_difference": first, "block_text_parses": nb is not None}


def kinds_of_recipe(recipe):
    kinds = {}
    for c in recipe:
        if c[0] == "op" and len(c) == 3 and isinstance(c[2], str) and c[2].startswith("TMPL_"):
            k = {"int": "int", "byte": "bytes", "addr": "addr"}.get(c[1])
            if k:
                for name in tmpl_names(c[2]):
                    if k == "addr" or name not in kinds:
                        kinds[name] = k          # an address use decides (the known addr-template class)
    return kinds


def sigs_of_recipe(recipe):
    out = {}
    for c in recipe:
        if c[0] == "op" and c[1] == "method" and len(c) == 3 and isinstance(c[2], str) and len(c[2]) >= 2:
            inner = c[2][1:-1]
            if "\\" not in inner and '"' not in inner and all(ord(ch) < 256 for ch in inner):
                out[inner] = G.sha512_256(inner.encode("utf-8"))[:4]
    return out


def count_repeated(recipe_lines):
    return 0


# ---------------------------------------------------------------------------------------------
# whole programs through the public constructors
# ---------------------------------------------------------------------------------------------
def gen_program(rng, pt, version, size, with_tmpl, with_sub, many=0):
    """-> (expr, kinds, sigs). Constants are drawn from small pools so that repeats are frequent."""
    kinds = {}
    sigs = {}
    ints = [rng.choice(G.INT_POOL) for _ in range(rng.randrange(1, 7))]
    byts = [rng.choice(G.BYTE_POOL) if rng.random() < 0.7 else bytes(rng.randrange(256) for _ in range(rng.randrange(0, 6))) for _ in range(rng.randrange(1, 6))]
    addrs = [G.make_address(bytes(rng.randrange(256) for _ in range(32))) for _ in range(2)]
    msigs = [rng.choice(G.SIGS) for _ in range(2)]
    if rng.random() < 0.3:
        key = bytes(rng.randrange(256) for _ in range(32))
        addrs.append(G.make_address(key))
        byts.append(key)
    # same source text under different constructors: Bytes(sig) vs MethodSignature(sig), Bytes(addr) vs Addr(addr),
    # Bytes("TMPL_BYTES_0") vs Tmpl.Bytes, Bytes("5") vs Int(5), Bytes of a base64 text vs Bytes("base64", text)
    if rng.random() < 0.6:
        byts.append(rng.choice(msigs).encode())
    if rng.random() < 0.3:
        byts.append(rng.choice(addrs).encode())
    if with_tmpl and rng.random() < 0.5:
        byts.append(rng.choice([b"TMPL_BYTES_0", b"TMPL_ADDR_0", b"TMPL_INT_0"]))
    if rng.random() < 0.3:
        byts.append(str(rng.choice(ints)).encode())
    if rng.random() < 0.3:
        import base64 as _b
        byts.append(_b.b64encode(rng.choice(byts)).decode().encode())

    def c_int():
        r = rng.random()
        if with_tmpl and r < 0.15:
            n = "TMPL_INT_%d" % rng.randrange(2)
            kinds[n] = "int"
            return pt.Tmpl.Int(n)
        if r < 0.35:
            return rng.choice([pt.OnComplete.NoOp, pt.OnComplete.OptIn, pt.OnComplete.CloseOut, pt.OnComplete.ClearState,
                               pt.OnComplete.UpdateApplication, pt.OnComplete.DeleteApplication, pt.TxnType.Unknown, pt.TxnType.Payment,
                               pt.TxnType.KeyRegistration, pt.TxnType.AssetConfig, pt.TxnType.AssetTransfer, pt.TxnType.AssetFreeze,
                               pt.TxnType.ApplicationCall])
        return pt.Int(rng.choice(ints))

    def c_bytes():
        r = rng.random()
        if with_tmpl and r < 0.10:
            n = "TMPL_BYTES_%d" % rng.randrange(2)
            kinds[n] = "bytes"
            return pt.Tmpl.Bytes(n)
        if with_tmpl and r < 0.14:
            n = "TMPL_ADDR_%d" % rng.randrange(2)
            kinds[n] = "addr"
            return pt.Tmpl.Addr(n)
        if r < 0.25:
            return pt.Addr(rng.choice(addrs))
        if r < 0.35:
            s = rng.choice(msigs)
            sigs[s] = G.sha512_256(s.encode())[:4]
            return pt.MethodSignature(s)
        b = rng.choice(byts)
        form = rng.choice(["str", "str", "str", "raw", "b16", "b16x", "b32", "b32pad", "b64"])
        if form == "str" and G.is_utf8(b):
            return pt.Bytes(b.decode("utf-8"))
        if form == "raw":
            return pt.Bytes(b)
        if form == "b16":
            return pt.Bytes("base16", b.hex().upper() if rng.random() < 0.5 else b.hex())
        if form == "b16x":
            return pt.Bytes("base16", "0x" + b.hex())
        import base64
        if form == "b32":
            return pt.Bytes("base32", base64.b32encode(b).decode().rstrip("="))
        if form == "b32pad":
            return pt.Bytes("base32", base64.b32encode(b).decode())
        return pt.Bytes("base64", base64.b64encode(b).decode())

    def e_int(d):
        r = rng.random()
        if d <= 0 or r < 0.4:
            return c_int()
        if r < 0.55:
            return pt.Len(e_bytes(d - 1))
        if r < 0.7:
            return e_bytes(d - 1) == e_bytes(d - 1)
        if r < 0.85:
            return e_int(d - 1) == e_int(d - 1)
        if r < 0.93:
            return pt.Btoi(pt.Txn.application_args[0]) + c_int()
        return e_int(d - 1) | e_int(d - 1)

    def e_bytes(d):
        r = rng.random()
        if d <= 0 or r < 0.6:
            return c_bytes()
        if r < 0.85:
            return pt.Concat(e_bytes(d - 1), e_bytes(d - 1))
        return pt.Itob(e_int(d - 1))

    slot = pt.ScratchVar(pt.TealType.uint64)

    def stmt(d):
        r = rng.random()
        if r < 0.30:
            return pt.Pop(e_int(2))
        if r < 0.50:
            return pt.Pop(e_bytes(2))
        if r < 0.62 and version >= 5:
            return pt.Log(e_bytes(2))
        if r < 0.74:
            return pt.App.globalPut(e_bytes(1), e_int(1) if rng.random() < 0.5 else e_bytes(1))
        if r < 0.82 and d > 0:
            return pt.If(e_int(1)).Then(stmt(d - 1)).Else(stmt(d - 1))
        if r < 0.90:
            return pt.Seq(slot.store(e_int(1)), pt.Pop(slot.load()))
        if r < 0.95:
            return pt.Assert(e_int(1) == e_int(1))
        return pt.Pop(e_int(1))

    body = [stmt(2) for _ in range(size)]
    if with_sub and version >= 4:
        def mk(j):
            def f():
                return pt.Seq(pt.Pop(e_bytes(1)), e_int(2))
            f.__name__ = "f%d" % j
            return pt.Subroutine(pt.TealType.uint64)(f)
        subs = [mk(j) for j in range(rng.randrange(1, 3))]
        body += [pt.Pop(s()) for s in subs for _ in range(rng.randrange(1, 3))]
    if many:
        # many distinct repeated constants spread over subroutines (one routine cannot hold them: RecursionError)
        per = 30

        def mkmany(j):
            def f():
                vals = list(range(200 + j * per, 200 + (j + 1) * per))
                return pt.Add(*[pt.Int(v) for v in vals], *[pt.Int(v) for v in vals])
            f.__name__ = "m%d" % j
            return pt.Subroutine(pt.TealType.uint64)(f)
        body += [pt.Pop(mkmany(j)()) for j in range((many + per - 1) // per)]
    end = pt.Approve() if (version >= 4 and rng.random() < 0.6) else pt.Return(e_int(1))
    return pt.Seq(*body, end), kinds, sigs


def run_ctx(args, msel):
    return (S("ctx"), (S("mode"), S("app")), (S("fuel"), 60000),
            (S("group"), ((S("fields"), ("ApplicationID", 7), ("OnCompletion", 0), ("TypeEnum", 6)),
                          (S("arrays"), ("ApplicationArgs", list(args))))),
            (S("msel"),) + tuple((k, v) for k, v in msel.items()))


def strip_pc(resp):
    return [x for x in resp if not (isinstance(x, list) and x and x[0] == S("pc"))] if isinstance(resp, list) else resp


# ---------------------------------------------------------------------------------------------
def shrink(recipe, fails, budget=400):
    cur = list(recipe)
    n = 0
    changed = True
    while changed and n < budget:
        changed = False
        for i in range(len(cur)):
            cand = cur[:i] + cur[i + 1:]
            n += 1
            if cand and fails(cand):
                cur = cand
                changed = True
                break
            if n >= budget:
                break
    return cur


def main(argv):
    args = parse_args(argv)
    ck = Check("C12", args.tier)
    thorough = args.tier == "thorough"
    import warnings
    warnings.simplefilter("ignore")
    import pyteal as pt
    import pyteal.compiler.compiler as cc

    ck.run_proofs("Props/C12.v", ["Proofs/ConstantsLitProof.v", "Proofs/ConstantsProof.v", "Proofs/ConstantsSim.v",
                                   # whole-program level (Props/C12_program.v): lock-step simulation on the reference machine between the
                                   # pseudo-op program and the assembled-constants program, and between the two printed texts
                                   "Proofs/ConstantsProgramMach.v", "Proofs/ConstantsProgramLink.v", "Proofs/ConstantsProgram.v", "Proofs/ConstantsProgramText.v",
                                   "Proofs/ConstantsProgramCompile.v", "Proofs/ConstantsProgramLiterals.v", "Proofs/ConstantsProgramExamples.v"],
                  extra_targets=["Extract/Main_c12.vo", "Extract/Main.vo"], extra_props=["Props/C12_program.v"])
    def open_model(name, target):
        # the binaries are rebuilt whenever any .v changed; if the tree moved under us, rebuild the objects and retry
        for _ in range(2):
            try:
                return Model(name)
            except RuntimeError:
                coq_make([target], tag="C12")
        return Model(name)
    model = open_model("c12", "Extract/Main_c12.vo")
    avm = open_model("main", "Extract/Main.vo")
    oracle = Oracle(model)
    rng = ck.rng

    # createConstantBlocks as called from inside compileTeal is observed, not replaced
    spy = {"in": None, "calls": 0}
    orig_ccb = cc.createConstantBlocks

    def spy_ccb(components):
        spy["in"] = list(components)
        spy["calls"] += 1
        return orig_ccb(components)
    cc.createConstantBlocks = spy_ccb

    text_mismatch = []      # model != real (correspondence)
    sem_fail = []           # property violated on the real output
    crash_fail = []         # implementation crashes (non-PyTeal exception) where the model has an output
    known_hits = {}
    hist = {"raises": 0, "ok": 0, "a_invalid": 0, "sites_same": 0, "tmpl_addr": 0, "index_gt_255": 0, "exc_classes": {}}

    def attribute(status, detail, recipe_info):
        """Map an oracle outcome to: None (fine), a known finding id, or 'violation'."""
        if status == "tmpl-addr":
            return "tmpl-addr-context"
        if status == "same" and detail.get("max", 0) > 255:
            return "index-gt-255"
        if status in ("same", "a-invalid"):
            return None
        return "violation"

    def note_known(fid, what):
        f = ck.match_known(lambda f: f.get("id") == fid)
        if f is None:
            return False
        known_hits[fid] = known_hits.get(fid, 0) + 1
        return True

    def oracle_on_recipe(recipe, real_lines):
        try:
            text_a = "\n".join(real_assemble(recipe))
        except Exception:
            return "a-invalid", {}
        text_b = "\n".join(real_lines)
        return oracle.compare(text_a, text_b, sigs_of_recipe(recipe), kinds_of_recipe(recipe))

    def check_recipe(recipe, tag):
        """Correspondence + oracle for one component list."""
        if not G.representable(recipe):
            return
        ck.count((tag, tuple(recipe)))
        r = call_real(real_ccb, recipe)
        ah, sh = G.oracle_tables(recipe)
        m = model.ask((S("ccb"), ah, sh, (S("comps"),) + tuple(G.wire_comp(c) for c in recipe)))
        if r[0] == "exc":
            hist["raises"] += 1
            hist["exc_classes"][r[1]] = hist["exc_classes"].get(r[1], 0) + 1
            if m != [S("raises")]:
                text_mismatch.append({"kind": "ccb", "recipe": recipe, "real": list(r), "model": repr(m)[:2000]})
                if r[1] not in PYTEAL_ERRORS and m and m[0] == S("ok"):
                    # the faithful model produces an output, the implementation dies with a non-PyTeal exception:
                    # a concrete failing input (crash instead of TEAL)
                    crash_fail.append({"kind": "crash", "recipe": recipe, "exception": list(r[1:]), "model_output": m[1:][:40]})
            return
        hist["ok"] += 1
        real_lines = r[1]
        if not (m and m[0] == S("ok") and m[1:] == real_lines):
            text_mismatch.append({"kind": "ccb", "recipe": recipe, "real": real_lines, "model": repr(m)[:2000]})
        status, detail = oracle_on_recipe(recipe, real_lines)
        fid = attribute(status, detail, recipe)
        if status == "a-invalid":
            hist["a_invalid"] += 1
        elif status == "same":
            hist["sites_same"] += 1
        if fid == "violation":
            sem_fail.append({"kind": "sites", "recipe": recipe, "detail": detail, "real": real_lines})
        elif fid is not None:
            hist["tmpl_addr" if fid == "tmpl-addr-context" else "index_gt_255"] += 1
            if not note_known(fid, ""):
                sem_fail.append({"kind": "sites", "finding_class": fid, "recipe": recipe, "detail": detail, "real": real_lines})
        if len(ck.samples) < 3 and len(recipe) in (5, 6, 7) and status == "same":
            ck.sample({"components": [list(map(repr, c[1:])) for c in recipe], "real_output": real_lines, "oracle": status})

    def to_recipe(js):
        return [tuple(tuple(a) if isinstance(a, list) else a for a in c) for c in js]

    # ---------------- replay of a recorded violation ----------------
    if args.replay:
        rec = json.load(open(args.replay))
        print("replaying %s: %s" % (args.replay, rec.get("what", "")[:200]))
        if rec.get("recipe"):
            recipe = to_recipe(rec["recipe"])
            r = call_real(real_ccb, recipe)
            print("components :", [" ".join(map(str, c[1:])) for c in recipe])
            print("real output:", r[1] if r[0] == "ok" else r)
            if r[0] == "ok":
                status, detail = oracle_on_recipe(recipe, r[1])
                fid = attribute(status, detail, recipe)
                print("site oracle:", status, detail)
                if fid == "violation" or (fid is not None and not note_known(fid, "")):
                    print("VIOLATION property=C12 replay=%s" % args.replay)
                    return 1
            elif r[1] not in PYTEAL_ERRORS:
                ah, sh = G.oracle_tables(recipe)
                m = model.ask((S("ccb"), ah, sh, (S("comps"),) + tuple(G.wire_comp(c) for c in recipe)))
                if m and m[0] == S("ok"):
                    print("crash instead of output; the model gives:", m[1:][:20])
                    print("VIOLATION property=C12 replay=%s" % args.replay)
                    return 1
            print("not reproduced")
            return 0
        if rec.get("spelling") is not None:
            s_ = rec["spelling"]
            r = call_real(real_extract, "byte", (s_,))
            d = model.ask((S("decode-bytes"), s_))
            print("constants.py:", r, " assembler:", d)
            if r[0] == "ok" and d[0] == S("some") and r[1][1] != d[1]:
                print("VIOLATION property=C12 replay=%s" % args.replay)
                return 1
            print("not reproduced")
            return 0
        if rec.get("plain") and rec.get("with_option"):
            print("recorded program pair (regenerate with the same VERIF_SEED to re-run):")
            print(rec["plain"][:1500])
            print("----")
            print(rec["with_option"][:1500])
            return 1
        print("replay file carries no input (broken: %s)" % rec.get("broken"))
        return 1

    # ---------------- corpus of earlier minimised failures ----------------
    corpus_path = os.path.join(VERIF, "harness", "corpus", "c12.json")
    if os.path.exists(corpus_path):
        for rec in json.load(open(corpus_path)):
            check_recipe(to_recipe(rec), "corpus")

    # ---------------- A. extract*Value vs model, and vs the assembler's reading ----------------
    ext_mismatch = []
    agree_fail = []
    ext_hist = {}

    def check_extract(kind, a):
        if not G.representable([("op", kind) + tuple(a)]):
            return
        ck.count(("extract", kind, tuple(a)))
        r = call_real(real_extract, kind, a)
        ah, sh = G.oracle_tables([("op", {"method": "method"}.get(kind, kind)) + tuple(a)])
        m = model.ask((S("extract"), S(kind), ah, sh) + tuple(G.wire_arg(x) for x in a))
        real = r[1] if r[0] == "ok" else [S("raises")]
        ext_hist[(kind, "ok" if r[0] == "ok" else "raises")] = ext_hist.get((kind, "ok" if r[0] == "ok" else "raises"), 0) + 1
        if m != real:
            ext_mismatch.append({"kind": "extract", "op": kind, "args": list(a), "real": repr(r)[:300], "model": repr(m)[:300]})
        # the assembler's reading of the same spelling must agree whenever both read it
        if r[0] == "ok" and len(a) == 1 and isinstance(a[0], str) and kind == "byte" and real[0] == S("bytes"):
            d = model.ask((S("decode-bytes"), a[0]))
            if d[0] == S("some") and d[1] != real[1]:
                agree_fail.append({"kind": "grammar", "spelling": a[0], "pyteal": real[1].hex(), "assembler": d[1].hex()})
        if r[0] == "ok" and len(a) == 1 and kind == "int" and real[0] == S("int"):
            d = model.ask((S("decode-int"), str(a[0])))
            if d[0] == S("some") and d[1] != real[1]:
                agree_fail.append({"kind": "grammar", "spelling": str(a[0]), "pyteal": real[1], "assembler": d[1]})

    for v in G.INT_POOL + G.ENUMS + G.MALFORMED_INTS + ["TMPL_A", "TMPL_INT_1"]:
        check_extract("int", (v,))
    for s in G.MALFORMED_BYTES + ["TMPL_B"]:
        check_extract("byte", (s,))
    for b in G.BYTE_POOL:
        for form in ["hex", "HEX", "b32", "b32pad", "b64"] + (["quoted"] if G.is_utf8(b) else []):
            check_extract("byte", (G.spell_bytes(rng, b, form),))
    # every single byte, and every pair around the escape-relevant characters, through the real constructor
    opts = cc.CompileOptions(version=6, mode=pt.Mode.Application)
    ctor_spellings = []
    for c in range(256):
        s = bytes([c]).decode("latin-1")
        ctor_spellings.append(pt.Bytes(s).__teal__(opts)[0].ops[0].args[0])
    special = ['"', "\\", "n", "x", "4", "\n", "/", ";", " ", "'", "\xe9", "="]
    for x in special:
        for y in special:
            for z in (special if thorough else ["\\", '"', "a"]):
                ctor_spellings.append(pt.Bytes(x + y + z).__teal__(opts)[0].ops[0].args[0])
    n_rand = 6000 if thorough else 300
    for _ in range(n_rand):
        n = rng.randrange(0, 12)
        b = bytes(rng.choice([rng.randrange(256), 34, 92, 61, 47]) for _ in range(n))
        k = rng.randrange(6)
        import base64
        if k == 0:
            e = pt.Bytes(b)
        elif k == 1:
            e = pt.Bytes("base16", rng.choice(["", "0x"]) + (b.hex() if rng.random() < 0.5 else b.hex().upper()))
        elif k == 2:
            e = pt.Bytes("base32", base64.b32encode(b).decode().rstrip("=") if rng.random() < 0.5 else base64.b32encode(b).decode())
        elif k == 3:
            e = pt.Bytes("base64", base64.b64encode(b).decode())
        else:
            e = pt.Bytes(b.decode("latin-1"))
        ctor_spellings.append(e.__teal__(opts)[0].ops[0].args[0])
    # non-canonical but constructor-accepted base32/base64 (trailing bits set)
    for s in ["AB", "AH", "MFRGH", "77", "7777", "ABCDE", "ABCDEFH", "ABCDEFGHAB======", "MFRGG==="]:
        r = call_real(pt.Bytes, "base32", s)
        if r[0] == "ok":
            ctor_spellings.append(r[1].__teal__(opts)[0].ops[0].args[0])
    for s in ["YR==", "YWK=", "//==", "+/+/", "YWJjZB=="]:
        r = call_real(pt.Bytes, "base64", s)
        if r[0] == "ok":
            ctor_spellings.append(r[1].__teal__(opts)[0].ops[0].args[0])
    ctor_ok = 0
    for s in ctor_spellings:
        check_extract("byte", (s,))
        # for constructor-emitted spellings BOTH readings must exist (no crash, assembler accepts) and agree
        r = call_real(real_extract, "byte", (s,))
        d = model.ask((S("decode-bytes"), s))
        if r[0] != "ok" or d[0] != S("some") or r[1][1] != d[1]:
            agree_fail.append({"kind": "grammar-ctor", "spelling": s, "pyteal": repr(r)[:200], "assembler": repr(d)[:200]})
        else:
            ctor_ok += 1
    for _ in range(400 if thorough else 120):
        check_extract("byte", (G.mutate_spelling(rng, rng.choice(ctor_spellings)),))
    for a in G.MALFORMED_ADDRS + ["TMPL_ADDR"] + [G.make_address(bytes(rng.randrange(256) for _ in range(32))) for _ in range(10)]:
        check_extract("addr", (a,))
        check_extract("addr", (G.mutate_spelling(rng, a),))
    for s in G.MALFORMED_SIGS + ['"%s"' % x for x in G.SIGS]:
        check_extract("method", (s,))
    for a in [(), (1, 2), (("lbl", "x"),), ("a", "b")]:
        for kind in ("int", "byte", "addr", "method"):
            check_extract(kind, a)
    ck.coverage["extract_cases"] = {"%s/%s" % k: v for k, v in sorted(ext_hist.items())}
    ck.coverage["constructor_spellings_agreeing_with_assembler"] = ctor_ok

    # ---------------- B. createConstantBlocks vs model: unit-test shapes, exhaustive small, random ----------------
    for rec in G.collision_lists(rng):
        check_recipe(rec, "collision")

    alphabet = [G.op("int", 1), G.op("int", 1000), G.op("int", "pay"), G.op("byte", '"a"'), G.op("byte", "0x61"),
                G.op("byte", "base64(Yg==)"), G.op("pop"), G.op("int", "TMPL_I"), G.op("method", '"a"')]
    import itertools
    maxlen = 5 if thorough else 4
    n_exh = 0
    for n in range(0, maxlen + 1):
        for combo in itertools.product(alphabet, repeat=n):
            check_recipe(list(combo), "exh")
            n_exh += 1
    ck.coverage["exhaustive_small"] = {"alphabet": [repr(a[1:]) for a in alphabet], "max_length": maxlen, "lists": n_exh}

    # frequency ties / top-four / >=128 threshold: k distinct small and large ints with chosen multiplicities
    for _ in range(2500 if thorough else 200):
        k = rng.randrange(3, 9)
        vals = rng.sample([0, 1, 2, 5, 100, 126, 127, 128, 129, 300, "TMPL_INT_0", 1 << 40], k)
        mult = [rng.choice([1, 2, 2, 3]) for _ in vals]
        seq = [G.op("int", v) for v, m_ in zip(vals, mult) for _ in range(m_)]
        rng.shuffle(seq)
        check_recipe(seq, "ties-int")
        bvals = rng.sample(G.BYTE_POOL + ["TMPL_BYTES_0"], k)
        seq = [G.op("byte", b if isinstance(b, str) else G.spell_bytes(rng, b)) for b, m_ in zip(bvals, mult) for _ in range(m_)]
        rng.shuffle(seq)
        check_recipe(seq, "ties-bytes")

    n_random = 25000 if thorough else 1200
    for i in range(n_random):
        length = rng.choice([0, 1, 2, 3, 5, 8, 13, 21, 34, 60])
        mal = 0.0 if i % 3 else rng.choice([0.05, 0.2])
        check_recipe(G.gen_list(rng, length, rng.randrange(1, 9), rng.randrange(1, 9), malformed_p=mal), "random" if not mal else "random-malformed")

    big_sizes = [5, 17, 100, 255, 256, 257, 300] + ([258, 400, 700] if thorough else [])
    for n in big_sizes:
        for kind in ("int", "bytes", "smallint"):
            check_recipe(G.many_distinct(rng, n, kind), "many-%s-%d" % (kind, n))
    # mixed: many distinct of both kinds plus templates
    check_recipe(G.many_distinct(rng, 260, "int") + G.many_distinct(rng, 260, "bytes") + [G.op("int", "TMPL_INT_0")] * 2, "many-mixed")

    # ---------------- C. whole programs, versions 3..10 (and the version-2 error) ----------------
    prog_fail = []
    n_prog = 0
    versions = list(range(3, 11))
    per_version = 60 if thorough else 8
    run_hist = {}
    for version in versions:
        for j in range(per_version + 1):
            many = 0
            if j == per_version:
                if version not in (4, 8, 10) and not thorough or version < 4:
                    continue
                many = 290
            mode = pt.Mode.Application
            prog, kinds, sigs = gen_program(rng, pt, version, rng.randrange(2, 9), with_tmpl=(j % 3 == 1), with_sub=(j % 2 == 0), many=many)
            a, b, seen = compile_pair(pt, prog, mode, version, spy)
            ck.count(("program", version, j, a[1] if a[0] == "ok" else a[1]))
            n_prog += 1
            if a[0] != "ok" or b[0] != "ok":
                if a[0] != b[0] or a[1] not in PYTEAL_ERRORS:
                    prog_fail.append({"kind": "program-compile", "version": version, "without": repr(a)[:300], "with": repr(b)[:300],
                                      "plain": a[1] if a[0] == "ok" else None})
                continue
            text_a, text_b = a[1], b[1]
            # correspondence: the option is exactly createConstantBlocks applied to the components of the plain compilation
            rec = G.recipe_of_components(seen) if seen is not None else None
            if rec is None:
                text_mismatch.append({"kind": "program", "version": version, "why": "createConstantBlocks was not called with expressible components", "text_with_option": text_b})
            else:
                head = "#pragma version %d\n" % version
                if head + "\n".join(real_assemble(rec)) != text_a:
                    text_mismatch.append({"kind": "program", "version": version, "why": "components given to createConstantBlocks are not the plain compilation", "plain": text_a})
                if G.representable(rec):
                    ah, sh = G.oracle_tables(rec)
                    m = model.ask((S("ccb"), ah, sh, (S("comps"),) + tuple(G.wire_comp(c) for c in rec)))
                    if not (m and m[0] == S("ok") and head + "\n".join(m[1:]) == text_b):
                        text_mismatch.append({"kind": "program", "version": version, "recipe": rec, "real": text_b, "model": repr(m)[:2000]})
            # oracle 1: site-by-site values
            status, detail = oracle.compare(text_a, text_b, sigs, kinds)
            fid = attribute(status, detail, None)
            if status == "a-invalid":
                ck.model_problem("the assembler model (AVM/Parse.v) cannot read a plain PyTeal compilation at version %d:\n%s" % (version, text_a[:600]))
                continue
            if fid == "violation" or (fid is not None and not note_known(fid, "")):
                prog_fail.append({"kind": "program-sites", "version": version, "finding_class": fid, "detail": detail, "plain": text_a, "with_option": text_b})
                continue
            if fid == "tmpl-addr-context":
                hist["tmpl_addr"] += 1
            if fid == "index-gt-255":
                hist["index_gt_255"] += 1
            # oracle 2: differential execution on the extracted AVM
            addr_bytes = fid == "tmpl-addr-context"
            ta = substitute(text_a, kinds)
            tb = substitute(text_b, kinds, addr_as_bytes=addr_bytes)
            for inp in ([b"\x00" * 8, (5).to_bytes(8, "big")] if not thorough else [b"\x00" * 8, (5).to_bytes(8, "big"), (1 << 63).to_bytes(8, "big")]):
                ctx = run_ctx([inp], sigs)
                ra = avm.ask((S("run"), ctx, ta))
                rb = avm.ask((S("run"), ctx, tb))
                ck.count(("run", version, j, inp))
                verdict = repr(ra[1]) if isinstance(ra, list) and len(ra) > 1 else repr(ra)
                run_hist[verdict] = run_hist.get(verdict, 0) + 1
                if not (isinstance(ra, list) and ra and ra[0] == S("ran")):
                    ck.model_problem("AVM could not run a plain compilation (v%d): %r" % (version, ra))
                    break
                if strip_pc(ra) != strip_pc(rb):
                    prog_fail.append({"kind": "program-run", "version": version, "input": inp.hex(), "plain_result": repr(ra)[:600],
                                      "with_option_result": repr(rb)[:600], "plain": text_a, "with_option": text_b})
                    break
            if len(ck.samples) < 6 and j == 1:
                ck.sample({"version": version, "plain": text_a.split("\n")[:14], "with_option": text_b.split("\n")[:16], "sites": status})
    # version gate
    for v in (2,):
        r = call_real(pt.compileTeal, pt.Return(pt.Int(1)), pt.Mode.Application, version=v, assembleConstants=True)
        ck.count(("gate", v), nontrivial=False)
        if not (r[0] == "exc" and r[1] == "TealInternalError"):
            prog_fail.append({"kind": "version-gate", "version": v, "observed": repr(r)[:300]})
    ck.coverage["programs"] = n_prog
    ck.coverage["avm_verdicts"] = run_hist
    ck.coverage["createConstantBlocks_calls_observed"] = spy["calls"]

    # ---------------- known findings: replay against the real code ----------------
    for f in ck.findings:
        w = f.get("witness", {})
        if f["id"] == "index-gt-255":
            n = int(w.get("distinct", 300))
            rec = [G.op("int", 1000 + i) for i in range(n)] * 2
            r = call_real(real_ccb, rec)
            still = r[0] == "ok" and any(l.startswith("intc 256 ") for l in r[1])
            rec_b = [G.op("byte", "0x%04x" % i) for i in range(n)] * 2
            r2 = call_real(real_ccb, rec_b)
            still_b = r2[0] == "ok" and any(l.startswith("bytec 256 ") for l in r2[1])
            ck.count(("known", f["id"]))
            if still or still_b:
                ck.known(f["id"], "%d distinct repeated constants give `%s` — block index above 255 is not encodable (intc/bytec take a uint8); seen in %d generated cases"
                         % (n, "intc 256" if still else "bytec 256", known_hits.get(f["id"], 0)))
        elif f["id"] == "tmpl-addr-context":
            prog = pt.Seq(pt.Pop(pt.Tmpl.Addr("TMPL_A")), pt.Approve())
            r = call_real(pt.compileTeal, prog, pt.Mode.Application, version=6, assembleConstants=True)
            ck.count(("known", f["id"]))
            if r[0] == "ok" and "pushbytes TMPL_A" in r[1]:
                ck.known(f["id"], "Tmpl.Addr placeholder moves from `addr TMPL_A` to `pushbytes TMPL_A` / bytecblock: the address text that instantiates the template (Tmpl.zero gives one) is not a byte literal, so the instantiated program no longer assembles; seen in %d generated cases"
                         % known_hits.get(f["id"], 0))

    # ---------------- failing-input search when the tie or a proof broke ----------------
    broke = bool(text_mismatch or ext_mismatch or not ck.proof_ok)
    searched = 0
    if broke and not sem_fail and not prog_fail and not agree_fail and not crash_fail:
        # start from the disagreeing recipes (already checked above), then widen: oracle only, no model
        seeds = [m["recipe"] for m in text_mismatch if m.get("recipe")]
        budget = 6000 if thorough else 2500

        def fails(rec):
            r = call_real(real_ccb, rec)
            if r[0] != "ok":
                return False
            st, det = oracle_on_recipe(rec, r[1])
            return attribute(st, det, rec) == "violation"
        for sd in seeds[:40]:
            for _ in range(20):
                cand = [c for c in sd if rng.random() < 0.8] + [rng.choice(sd) for _ in range(rng.randrange(0, 4))] if sd else []
                searched += 1
                if cand and fails(cand):
                    small = shrink(cand, fails)
                    sem_fail.append({"kind": "sites", "recipe": small, "found_by": "search from a disagreeing case", "real": call_real(real_ccb, small)[1]})
                    break
            if sem_fail:
                break
        while not sem_fail and searched < budget:
            searched += 1
            cand = G.gen_list(rng, rng.choice([2, 4, 8, 16, 40]), rng.randrange(1, 9), rng.randrange(1, 9), malformed_p=0.0, filler_p=0.15)
            if fails(cand):
                small = shrink(cand, fails)
                sem_fail.append({"kind": "sites", "recipe": small, "found_by": "random search", "real": call_real(real_ccb, small)[1]})
    ck.coverage["search_cases"] = searched

    # ---------------- verdict ----------------
    hist["exc_classes"] = dict(sorted(hist["exc_classes"].items()))
    ck.coverage["input_distribution"] = hist
    ck.coverage["known_finding_cases"] = known_hits
    ck.coverage["text_cases_mismatching"] = len(text_mismatch) + len(ext_mismatch)
    reported = set()
    for f in sem_fail[:8]:
        small = f["recipe"]
        if f.get("found_by") is None:
            def fails2(rec):
                r = call_real(real_ccb, rec)
                if r[0] != "ok":
                    return False
                st, det = oracle_on_recipe(rec, r[1])
                a = attribute(st, det, rec)
                return a == "violation" or (a is not None and f.get("finding_class") == a)
            if fails2(small):
                small = shrink(small, fails2)
        if repr(small) in reported:
            continue
        reported.add(repr(small))
        f = dict(f)
        f["recipe"] = small
        f["real"] = call_real(real_ccb, small)[1:] if small else f.get("real")
        ck.violation("assembleConstants changed a constant: components %s -> %s (site values differ from the pseudo-op form: %s)"
                     % ([" ".join(map(str, c[1:])) for c in small][:12], f["real"][:1], f.get("detail", "")), f)
    for f in prog_fail[:5]:
        ck.violation("program at version %s behaves differently with assembleConstants=True (%s)" % (f.get("version"), f["kind"]), f)
    for f in agree_fail[:5]:
        ck.violation("constants.py reads the literal %r as %s but the TEAL assembler reads %s: assembleConstants=True changes the value"
                     % (f["spelling"], f["pyteal"], f["assembler"]), f)
    crash_reported = set()
    for f in crash_fail[:40]:
        if len(crash_reported) >= 3:
            break
        exc_class = f["exception"][0]

        def crashes(rec, exc_class=exc_class):
            r = call_real(real_ccb, rec)
            if r[0] != "exc" or r[1] != exc_class:
                return False
            ah, sh = G.oracle_tables(rec)
            m = model.ask((S("ccb"), ah, sh, (S("comps"),) + tuple(G.wire_comp(c) for c in rec)))
            return bool(m) and m[0] == S("ok")
        small = shrink(f["recipe"], crashes) if crashes(f["recipe"]) else f["recipe"]
        if repr(small) in crash_reported:
            continue
        crash_reported.add(repr(small))
        f = dict(f)
        f["recipe"] = small
        f["exception"] = list(call_real(real_ccb, small)[1:])
        ck.violation("createConstantBlocks crashes with %s (not a PyTeal error) on components %s, where the pseudo-op program is fine and the model "
                     "produces the block form: assembleConstants=True turns a compilable program into a crash"
                     % (f["exception"][0], [" ".join(map(str, c[1:])) for c in small][:14]), f)
    real_failure = bool(sem_fail or prog_fail or agree_fail or crash_fail)
    if (text_mismatch or ext_mismatch) and not real_failure:
        first = (text_mismatch + ext_mismatch)[0]
        ck.violation("correspondence broken: constants.py no longer matches Comp/Constants.v on %d cases (theorem C12_constants_sites_preserved no longer transfers); "
                     "site-value search over %d further op lists found no changed constant" % (len(text_mismatch) + len(ext_mismatch), searched),
                     {"kind": "correspondence", "broken": "text equality createConstantBlocks / extract*Value vs Comp/Constants.v", "first": first}, no_failing_input=True)
    if not ck.proof_ok and not real_failure:
        ck.violation("proof obligation broken: Props/C12.v or its Proofs/ files no longer check",
                     {"kind": "proof", "broken": "C12 theorems", "forbidden_scan": ck.coverage.get("forbidden_scan"), "log": ck.proof_log[-1500:]}, no_failing_input=True)
    ck.coverage["disagreements_checked"] = len(text_mismatch) + len(ext_mismatch) + len(sem_fail) + len(prog_fail) + len(agree_fail) + len(crash_fail)
    model.close()
    avm.close()
    return ck.finish(
        level="proof",
        rule="extract*Value: fixed tables of well-formed and malformed spellings, every single-byte string and escape-relevant triples through the Bytes constructor, "
             "random byte strings in every Bytes form, mutated spellings; createConstantBlocks: every list over a 9-op alphabet up to length %d, "
             "frequency-tie / top-four / 128-threshold mixes, seeded random lists (length 0..60, pools of 1..8 ints and byte values in random spellings, enums, templates, "
             "addresses, method selectors, labels and other ops interleaved, a malformed stream), 5..300(+) distinct repeated constants; whole programs built through "
             "the public constructors at versions 3..10, compiled with and without the option; a case is distinct by its full component list / program text; "
             "non-trivial = every counted case except the version gate" % maxlen,
        trusted_base=[
            "TEAL literal grammar and tokeniser AVM/Parse.v (hand-written from the assembler's documented behaviour; it defines what a pseudo-op denotes)",
            "AVM semantics of intcblock/bytecblock/intc*/bytec*/pushint/pushbytes/int/byte/addr/method in AVM/Machine.v (hand-written spec)",
            "Theorems are about Comp/Constants.v + Comp/ConstantsLit.v (hand models of constants.py / util.py and of the Python library calls they make), tied to the code by exact text equality on every run",
            "RFC 4648 digit-sequence value decode_bits is shared by the library model and the assembler model; it is validated against CPython's base64 module by the extract correspondence",
            "SHA-512/256 (address checksum, method selector) is an oracle: a Section variable in the theorems, a table computed by algosdk in the harness",
            "Template placeholders are instantiated textually (as pyteal/compiler/sourcemap.py does) before the texts are read",
            "Extraction: ExtrOcamlBasic + ExtrOcamlNativeString, driver.ml (read-line loop)",
        ])


if __name__ == "__main__":
    sys.exit(run_main(main))
