"""C10 — marker programs built through PyTeal's public API (semantic oracle, independent of the model).

A *plan* is plain data (JSON-able) describing a program; `build(plan)` returns (expr, expectations).
Every variable receives a distinct marker, may be overwritten once, and is read back (twice, in two
different orders, unless plan["single_read"]) — reading twice keeps the slot optimiser from touching
anything (it only acts on slots with a single load), so the known C03 defect of that optimiser cannot
interfere; single_read plans exercise the (legitimate) store/load cancellation.

Variable kinds:
  ("auto", ty)            ScratchVar(ty)
  ("req", ty, id)         ScratchVar(ty, id)
  ("abi",)                abi.Uint64()  (scratch in main; frame local inside a subroutine with frame pointers)
ty is "u" (uint64) or "b" (bytes).
"""
import pyteal as pt

U, B = "u", "b"


def marker(i, ty, gen=0):
    n = 1_000_003 + 7919 * i + 104729 * gen
    if ty == B:
        return pt.Bytes("m%d-%d" % (i, gen)), ("m%d-%d" % (i, gen)).encode()
    return pt.Int(n), n


_HELPERS = {}


def helpers():
    """By-reference accessors (created once per build): set/get through a ScratchVar parameter, and the same
    forwarded through a second subroutine."""
    if not _HELPERS:
        @pt.Subroutine(pt.TealType.none)
        def c10_set(ref: pt.ScratchVar, val: pt.Expr):
            return ref.store(val)

        @pt.Subroutine(pt.TealType.anytype)
        def c10_get(ref: pt.ScratchVar):
            return ref.load()

        @pt.Subroutine(pt.TealType.none)
        def c10_set_fwd(ref: pt.ScratchVar, val: pt.Expr):
            return c10_set(ref, val)

        @pt.Subroutine(pt.TealType.anytype)
        def c10_get_fwd(ref: pt.ScratchVar):
            return c10_get(ref)

        # mixed signatures: by-value / ABI parameters in front of and between the by-reference ones
        @pt.Subroutine(pt.TealType.none)
        def c10_set_ev(pad: pt.Expr, ref: pt.ScratchVar, val: pt.Expr):
            return ref.store(val)

        @pt.Subroutine(pt.TealType.anytype)
        def c10_get_ev(pad: pt.Expr, ref: pt.ScratchVar):
            return ref.load()

        @pt.Subroutine(pt.TealType.none)
        def c10_set4(pad: pt.Expr, other: pt.ScratchVar, val: pt.Expr, ref: pt.ScratchVar):
            return pt.Seq(other.store(pad), ref.store(val))

        @pt.Subroutine(pt.TealType.anytype)
        def c10_get4(pad: pt.Expr, other: pt.ScratchVar, pad2: pt.Expr, ref: pt.ScratchVar):
            return pt.Seq(pt.Assert(other.load() == pad), ref.load())

        @pt.Subroutine(pt.TealType.none)
        def c10_set_abi(x: pt.abi.Uint64, ref: pt.ScratchVar, val: pt.Expr):
            return ref.store(val)

        @pt.Subroutine(pt.TealType.anytype)
        def c10_get_abi(x: pt.abi.Uint64, ref: pt.ScratchVar):
            return ref.load()

        _HELPERS.update(set=c10_set, get=c10_get, set_fwd=c10_set_fwd, get_fwd=c10_get_fwd, set_ev=c10_set_ev, get_ev=c10_get_ev,
                        set4=c10_set4, get4=c10_get4, set_abi=c10_set_abi, get_abi=c10_get_abi)
    return _HELPERS


class Var:
    """One variable of a plan, with uniform store/load/eq over ScratchVar and abi.Uint64.
    ("ind", ty, id_or_None, mode): a ScratchVar that is NEVER stored/loaded directly, only reached
      mode "idx"   through ScratchStore/ScratchLoad(index_expression=var.index())
      mode "dyn"   through its own DynamicScratchVar (set_index, store, load)
      mode "byref" as a by-reference argument of a setter / getter subroutine
      mode "fwd"   as a by-reference argument forwarded through a second subroutine
      mode "ev"    by reference AFTER a by-value parameter: set(pad: Expr, ref: ScratchVar, val: Expr); pad is a small
                   valid slot number (0..7), so a wrong frame cell silently designates another variable
      mode "mix4"  (Expr, ScratchVar, Expr, ScratchVar): a second by-reference variable (automatic) in between
      mode "abi"   by reference after an abi.Uint64 parameter.
    ("dl", ty, id_or_None, mode): stored directly with an adjacent direct load (`store v; load v; pop`), read back
      only through mode: the slot optimiser must leave the pair alone because v's index is taken."""

    def __init__(self, spec, index):
        self.spec = tuple(spec)
        self.index = index
        kind = self.spec[0]
        self.mode = None
        if kind == "auto":
            self.ty = self.spec[1]
            self.obj = pt.ScratchVar(pt.TealType.uint64 if self.ty == U else pt.TealType.bytes)
        elif kind == "req":
            self.ty = self.spec[1]
            self.obj = pt.ScratchVar(pt.TealType.uint64 if self.ty == U else pt.TealType.bytes, self.spec[2])
        elif kind in ("ind", "dl"):
            self.ty = self.spec[1]
            tt = pt.TealType.uint64 if self.ty == U else pt.TealType.bytes
            self.obj = pt.ScratchVar(tt) if self.spec[2] is None else pt.ScratchVar(tt, self.spec[2])
            self.mode = self.spec[3]
            if self.mode == "dyn":
                self.d = pt.DynamicScratchVar(tt)
            if self.mode == "mix4":
                self.other = pt.ScratchVar(pt.TealType.uint64)
            if self.mode == "abi":
                self.a = pt.abi.Uint64()
            self.pad = pt.Int(index % 8)
        elif kind == "abi":
            self.ty = U
            self.obj = pt.abi.Uint64()
        else:
            raise ValueError(kind)
        self.direct = kind in ("auto", "req")            # accessed with plain load/store; may be a DynamicScratchVar target
        self.in_scratch = kind in ("auto", "req", "ind", "dl")
        self.dl = (kind == "dl")
        self.is_scratchvar = self.direct
        self.requested = self.spec[2] if kind in ("req", "ind", "dl") else None

    def store(self, gen=0):
        e, _ = marker(self.index, self.ty, gen)
        if self.direct:
            return self.obj.store(e)
        if self.dl:
            # the ONLY direct accesses: a store immediately followed by a load (what the slot optimiser cancels when
            # the slot is not protected); every later read goes through self.mode
            extra = [self.other.store(self.pad)] if self.mode == "mix4" else []
            return pt.Seq(*extra, self.obj.store(e), pt.Pop(self.obj.load()))
        if self.mode == "idx":
            return pt.ScratchStore(slot=None, value=e, index_expression=self.obj.index())
        if self.mode == "dyn":
            return pt.Seq(self.d.set_index(self.obj), self.d.store(e))
        if self.mode == "byref":
            return helpers()["set"](self.obj, e)
        if self.mode == "fwd":
            return helpers()["set_fwd"](self.obj, e)
        if self.mode == "ev":
            return helpers()["set_ev"](self.pad, self.obj, e)
        if self.mode == "mix4":
            return helpers()["set4"](self.pad, self.other, e, self.obj)
        if self.mode == "abi":
            return pt.Seq(self.a.set(self.pad), helpers()["set_abi"](self.a, self.obj, e))
        return self.obj.set(e)

    def load(self):
        if self.direct:
            return self.obj.load()
        tt = pt.TealType.uint64 if self.ty == U else pt.TealType.bytes
        if self.mode == "idx":
            return pt.ScratchLoad(slot=None, type=tt, index_expression=self.obj.index())
        if self.mode == "dyn":
            return pt.Seq(self.d.set_index(self.obj), self.d.load())
        if self.mode == "byref":
            return helpers()["get"](self.obj)
        if self.mode == "fwd":
            return helpers()["get_fwd"](self.obj)
        if self.mode == "ev":
            return helpers()["get_ev"](self.pad, self.obj)
        if self.mode == "mix4":
            return helpers()["get4"](self.pad, self.other, pt.Int((self.index + 3) % 8), self.obj)
        if self.mode == "abi":
            return pt.Seq(self.a.set(self.pad), helpers()["get_abi"](self.a, self.obj))
        return self.obj.get()

    def check(self, gen=0):
        e, _ = marker(self.index, self.ty, gen)
        return pt.Assert(self.load() == e)

    def log(self):
        return pt.Log(pt.Itob(self.load()) if self.ty == U else self.load())

    def value(self, gen=0):
        return marker(self.index, self.ty, gen)[1]


def perm(n, k):
    """A fixed permutation of range(n) depending on k (deterministic, no RNG: plans are replayable)."""
    if n == 0:
        return []
    step = [1, 7, 11, 13, 17, 19, 23, 29][k % 8]
    while n % step == 0 and step > 1:
        step += 2
    from math import gcd
    while gcd(step, n) != 1:
        step += 1
    return [(k * 31 + i * step) % n for i in range(n)]


def section(vars_, plan, tag):
    """store all / overwrite some / dynamic accesses / read back all: the body for one routine.
    Returns (list of Exprs, expected log list (bytes), requested-slot expectations {slot: value})."""
    n = len(vars_)
    ow = set(plan.get("overwrite", []))
    single = plan.get("single_read", False)
    logs = []
    exprs = []
    for v in vars_:
        exprs.append(v.store(0))
    gen = {v.index: 0 for v in vars_}
    for v in vars_:
        if v.index in ow and not single:
            exprs.append(v.store(1))
            gen[v.index] = 1
    # dynamic accesses through DynamicScratchVar and .index()
    for (didx, targets) in plan.get("dynamic", {}).get(tag, []):
        d = pt.DynamicScratchVar(pt.TealType.anytype)
        for t in targets:
            tv = vars_[t]
            if not tv.direct:
                continue
            exprs.append(d.set_index(tv.obj))
            exprs.append(pt.Assert(d.load() == marker(tv.index, tv.ty, gen[tv.index])[0]))
            if tv.requested is not None:
                exprs.append(pt.Assert(d.index() == pt.Int(tv.requested)))
                exprs.append(pt.Assert(tv.obj.index() == pt.Int(tv.requested)))
            # write through the dynamic variable, observe through the static one
            gen[tv.index] = 2
            exprs.append(d.store(marker(tv.index, tv.ty, 2)[0]))
            exprs.append(pt.Assert(tv.obj.load() == marker(tv.index, tv.ty, 2)[0]))
            # and read the cell the static index names
            exprs.append(pt.Assert(pt.ScratchLoad(slot=None, type=pt.TealType.anytype, index_expression=tv.obj.index()) == marker(tv.index, tv.ty, 2)[0]))
    order1 = perm(n, plan.get("perm", 0))
    for i in order1:
        exprs.append(vars_[i].check(gen[vars_[i].index]))
    if not single:
        order2 = perm(n, plan.get("perm", 0) + 3)
        for j, i in enumerate(order2):
            if j < plan.get("nlogs", 8):
                exprs.append(vars_[i].log())
                val = vars_[i].value(gen[vars_[i].index])
                logs.append(val.to_bytes(8, "big") if isinstance(val, int) else val)
            else:
                exprs.append(vars_[i].check(gen[vars_[i].index]))
    requested = {v.requested: v.value(gen[v.index]) for v in vars_ if v.requested is not None}
    finals = [v.value(gen[v.index]) for v in vars_ if v.in_scratch]
    return exprs, logs, requested, finals


def build_branch(plan):
    """plan: {"branch": "then" | "else" | "join" | "both", "n": k, "sub": bool}.  k automatically numbered uint64
    variables; first block: every variable stored, an unrelated op, every variable read back (store and load NOT
    adjacent); later block (Then arm / Else arm / after the join / both arms): each variable stored again and loaded
    IMMEDIATELY (the `store v; load v` shape the slot optimiser looks at) and logged.  No path has two stores of a
    variable without a load in between (the known optimiser defect of C01/C05 is a different shape)."""
    n = plan.get("n", 1)
    shape = plan["branch"]
    base = plan.get("base", 0)

    def body():
        vs = [pt.ScratchVar(pt.TealType.uint64) for _ in range(n)]
        m0 = [marker(base + i, U, 0) for i in range(n)]
        m1 = [marker(base + i, U, 1) for i in range(n)]
        first = [v.store(m0[i][0]) for i, v in enumerate(vs)] + [pt.Pop(pt.Int(9))] + \
                [pt.Assert(v.load() == m0[i][0]) for i, v in enumerate(vs)]
        def later():
            return pt.Seq(*[pt.Seq(v.store(m1[i][0]), pt.Log(pt.Itob(v.load()))) for i, v in enumerate(vs)])
        if shape == "then":
            ctl = [pt.If(pt.Int(1)).Then(later())]
        elif shape == "else":
            ctl = [pt.If(pt.Int(0)).Then(pt.Pop(pt.Int(5))).Else(later())]
        elif shape == "both":
            ctl = [pt.If(pt.Int(1)).Then(later()).Else(later())]
        else:
            ctl = [pt.If(pt.Int(1)).Then(pt.Pop(pt.Int(5))), later()]
        return first + ctl, [x[1].to_bytes(8, "big") for x in m1], [x[1] for x in m1]

    if plan.get("sub"):
        info = {}

        def c10_branch_sub():
            ex, lg, fin = body()
            info["x"] = (lg, fin)
            return pt.Seq(*ex, pt.Return(pt.Int(77)))

        fn = pt.Subroutine(pt.TealType.uint64)(c10_branch_sub)
        g = pt.ScratchVar(pt.TealType.uint64)
        expr = pt.Seq(g.store(pt.Int(5)), pt.Assert(fn() == pt.Int(77)), pt.Assert(g.load() == pt.Int(5)), pt.Approve())
        # the subroutine body is evaluated at compile time; markers are deterministic, so compute them here as well
        lg = [marker(base + i, U, 1)[1].to_bytes(8, "big") for i in range(n)]
        fin = [marker(base + i, U, 1)[1] for i in range(n)] + [5]
        return expr, [], (lg, {}, fin), {}, []
    ex, lg, fin = body()
    return pt.Seq(*ex, pt.Approve()), [], (lg, {}, fin), {}, []


def build(plan):
    """plan: {"shared": [varspec...], "main": [varspec...], "subs": [{"vars": [...], "ret": bool} ...], "nest": bool, "overwrite": [...],
              "dynamic": {"main": [(0, [targets])], "sub0": ...}, "perm": k, "single_read": bool, "nlogs": n}
    Variable indices are global over the plan (main first, then each sub)."""
    if "branch" in plan:
        return build_branch(plan)
    counter = [0]
    _HELPERS.clear()

    def mk(specs):
        out = []
        for s in specs:
            out.append(Var(s, counter[0]))
            counter[0] += 1
        return out

    # shared variables: created and stored in main, read (and checked) inside every subroutine as well
    shared_vars = mk(plan.get("shared", []))
    main_vars = shared_vars + mk(plan.get("main", []))
    ow_all = set(plan.get("overwrite", []))
    shared_gen = {v.index: (1 if (v.index in ow_all and not plan.get("single_read", False)) else 0) for v in shared_vars}
    m_exprs, m_logs, m_req, m_fin = section(main_vars, plan, "main")

    subs = plan.get("subs", [])
    sub_fns = []
    sub_logs = []
    # variables of a subroutine are created INSIDE its body (so that frame pointers, when on, apply)
    sub_specs = []
    for si, s in enumerate(subs):
        base = counter[0]
        sub_specs.append((base, s))
        counter[0] += len(s["vars"])

    class Holder:
        _info = None

    def call_expr(si):
        """The call of subroutine si with its arguments, checked against its result.
        "ret": True (plain, uint64) | False (plain, none) | "abi" (ABIReturnSubroutine with an abi.Uint64 output)
               | "abivoid" (ABIReturnSubroutine without output);  "args": 0 | 2 (by-value Expr parameters)."""
        s = subs[si]
        fn = sub_fns_by_index[si]
        args = [pt.Int(3), pt.Int(4)][: s.get("args", 0)]
        ret = s.get("ret", True)
        if ret == "abi":
            r = pt.abi.Uint64()
            return pt.Seq(r.set(fn(*args)), pt.Assert(r.get() == pt.Int(500 + si)))
        if ret is True:
            return pt.Assert(fn(*args) == pt.Int(500 + si))
        return fn(*args)

    def make_sub(si):
        base, s = sub_specs[si]
        holder = Holder()
        ret = s.get("ret", True)

        def impl(params, output=None):
            vs = [Var(spec, base + k) for k, spec in enumerate(s["vars"])]
            ex, lg, rq, fin = section(vs, plan, "sub%d" % si)
            # split: stores first, then the nested call, then the read-back (all locals stay live across the call)
            nst = len(vs) + sum(1 for v in vs if v.index in set(plan.get("overwrite", [])) and not plan.get("single_read", False))
            pre, post = ex[:nst], ex[nst:]
            call = []
            if plan.get("nest", True) and si + 1 < len(subs):
                call = [call_expr(si + 1)]
            holder._info = (lg, rq, fin)
            if output is not None:
                tail = [output.set(pt.Int(500 + si))]
            elif ret is True:
                tail = [pt.Return(pt.Int(500 + si))]
            else:
                tail = [pt.Return()] if ret is False else []
            argchk = [pt.Assert(params[0] + params[1] == pt.Int(7))] if len(params) == 2 else []
            argchk2 = [pt.Assert(params[0] + params[1] == pt.Int(7))] if len(params) == 2 else []
            sh1 = [v.check(shared_gen[v.index]) for v in shared_vars]
            sh2 = [v.check(shared_gen[v.index]) for v in shared_vars]
            return pt.Seq(*argchk, *sh1, *pre, *call, *sh2, *post, *argchk2, *tail)

        nargs = s.get("args", 0)
        if ret == "abi":
            if nargs == 2:
                def body(a: pt.Expr, b: pt.Expr, *, output: pt.abi.Uint64):
                    return impl([a, b], output)
            else:
                def body(*, output: pt.abi.Uint64):
                    return impl([], output)
        elif nargs == 2:
            def body(a: pt.Expr, b: pt.Expr):
                return impl([a, b])
        else:
            def body():
                return impl([])
        body.__name__ = "c10_sub%d" % si
        if ret in ("abi", "abivoid"):
            return pt.ABIReturnSubroutine(body), holder
        return pt.Subroutine(pt.TealType.uint64 if ret is True else pt.TealType.none)(body), holder

    sub_fns_by_index = {}
    bodies = {}
    for si in reversed(range(len(subs))):
        fn, body = make_sub(si)
        sub_fns_by_index[si] = fn
        bodies[si] = body

    # main: stores, then the calls, then the read-back
    ow = set(plan.get("overwrite", []))
    nst = len(main_vars) + sum(1 for v in main_vars if v.index in ow and not plan.get("single_read", False))
    pre, post = m_exprs[:nst], m_exprs[nst:]
    calls = []
    if subs:
        idxs = [0] if plan.get("nest", True) else list(range(len(subs)))
        for si in idxs:
            calls.append(call_expr(si))
    expr = pt.Seq(*pre, *calls, *post, pt.Approve())
    return expr, main_vars, (m_logs, m_req, m_fin), bodies, sub_specs


def expectations(plan, built):
    """Call AFTER compileTeal (subroutine bodies are evaluated during compilation).
    Returns dict: logs (list of bytes, in program order), requested {slot: value}, finals [values]."""
    expr, main_vars, (m_logs, m_req, m_fin), bodies, sub_specs = built
    subs = plan.get("subs", [])
    infos = {}
    for si, body in bodies.items():
        infos[si] = getattr(body, "_info", None)
    requested = dict(m_req)
    finals = list(m_fin)
    # log order: nested: sub logs happen inside the call chain before main's read-back; deepest first
    sub_log_seq = []
    if subs:
        if plan.get("nest", True):
            for si in reversed(range(len(subs))):
                if infos[si] is not None:
                    sub_log_seq += infos[si][0]
        else:
            for si in range(len(subs)):
                if infos[si] is not None:
                    sub_log_seq += infos[si][0]
    for si in range(len(subs)):
        if infos[si] is not None:
            requested.update(infos[si][1])
            finals += infos[si][2]
    return {"logs": sub_log_seq + m_logs, "requested": requested, "finals": finals}
