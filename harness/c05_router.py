"""C05 — a small directed population of Router-built programs (ARC-4 routers with ABI methods of a few shapes and
bare calls), compiled through Router.compile_program over versions x OptimizeOptions, with the subroutine signatures
their declarations imply and transaction contexts that call each method / bare action."""
import re

from common import S, call_real


def _r1(pt):
    abi = pt.abi
    router = pt.Router("r1", pt.BareCallActions(no_op=pt.OnCompleteAction.create_only(pt.Approve())), clear_state=pt.Approve())

    @router.method
    def add(a: abi.Uint64, b: abi.Uint64, *, output: abi.Uint64) -> pt.Expr:
        return output.set(a.get() + b.get())

    @router.method
    def join(a: abi.String, b: abi.String, *, output: abi.String) -> pt.Expr:
        return output.set(pt.Concat(a.get(), b.get()))

    @router.method
    def note(a: abi.String) -> pt.Expr:
        return pt.Log(a.get())

    return router


def _r2(pt):
    abi = pt.abi

    @pt.Subroutine(pt.TealType.uint64)
    def fact(n):
        return pt.If(n <= pt.Int(1), pt.Int(1), n * fact(n - pt.Int(1)))

    router = pt.Router(
        "r2",
        pt.BareCallActions(no_op=pt.OnCompleteAction.create_only(pt.Approve()),
                           opt_in=pt.OnCompleteAction.call_only(pt.Seq(pt.Pop(pt.Int(1)), pt.Approve()))),
        clear_state=pt.Seq(pt.Pop(pt.Bytes("bye")), pt.Approve()))

    @router.method
    def seven(*, output: abi.Uint64) -> pt.Expr:
        return output.set(pt.Int(7))

    @router.method
    def factorial(n: abi.Uint64, *, output: abi.Uint64) -> pt.Expr:
        return output.set(fact(n.get()))

    @router.method
    def flags(a: abi.Uint8, b: abi.Bool, c: abi.Address, *, output: abi.Bool) -> pt.Expr:
        return output.set(pt.And(a.get() > pt.Int(3), b.get(), pt.Len(c.get()) == pt.Int(32)))

    @router.method(opt_in=pt.CallConfig.CALL, no_op=pt.CallConfig.CALL)
    def pair(t: abi.Tuple2[abi.Uint64, abi.String], *, output: abi.Uint64) -> pt.Expr:
        x = abi.Uint64()
        s = abi.String()
        return pt.Seq(t[0].store_into(x), t[1].store_into(s), output.set(x.get() + pt.Len(s.get())))

    return router


# name -> (factory, {method label prefix: (arg storage types in order, result storage type or None)}, call examples)
def u64(n):
    return n.to_bytes(8, "big")


def abistr(b):
    return len(b).to_bytes(2, "big") + b


ROUTERS = {
    "r1": (_r1, {"add": ("uu", "u"), "join": ("bb", "b"), "note": ("b", None)},
           [("add(uint64,uint64)uint64", [u64(3), u64(4)]), ("join(string,string)string", [abistr(b"ab"), abistr(b"cde")]),
            ("note(string)void", [abistr(b"hello")])]),
    "r2": (_r2, {"seven": ("", "u"), "factorial": ("u", "u"), "flags": ("uub", "u"), "pair": ("b", "u"), "fact": ("u", "u!")},
           [("seven()uint64", []), ("factorial(uint64)uint64", [u64(4)]), ("flags(uint8,bool,address)bool", [b"\x05", b"\x80", bytes(32)]),
            ("pair((uint64,string))uint64", [u64(9) + (10).to_bytes(2, "big") + abistr(b"xyz")])]),
}

OPTS = [("none", None, None), ("fp-on", None, True), ("fp-off", None, False), ("ss-on", True, None), ("ss-off", False, None)]


def selector(sig):
    from algosdk.abi import Method
    return Method.from_signature(sig).get_selector()


def msel_of(teal):
    """(signature, selector) for every `method "..."` line"""
    out = []
    for m in re.finditer(r'^method "([^"]*)"$', teal, re.M):
        if m.group(1) not in [x[0] for x in out]:
            out.append((m.group(1), selector(m.group(1))))
    return out


class RouterCase:
    """Same interface as c05.Case for the parts `consider` uses."""

    def __init__(self, name, which, version, ss, fp):
        self.kind, self.name, self.which = "router", name, which
        self.version, self.app, self.ss, self.fp = version, True, ss, fp
        self.recipe, self.subdefs = ("router", name, which), []
        self.real, self.decl = None, []

    def compile(self, pt, ss="same"):
        ss_ = self.ss if ss == "same" else ss
        opt = None if (ss_ is None and self.fp is None) else pt.OptimizeOptions(scratch_slots=ss_, frame_pointers=self.fp)

        def go():
            router = ROUTERS[self.name][0](pt)
            ap, cl, _ = router.compile_program(version=self.version, optimize=opt)
            return ap if self.which == "approval" else cl
        return call_real(go)

    def declare(self, teal):
        """every subroutine label: `<method>_<k>` -> the ABI signature's storage types, `<method>caster_<k>` -> () -> ();
        types TOP FIRST; a result produced by a deferred scratch load / frame cell is declared with its storage type"""
        sigs = ROUTERS[self.name][1]
        decl = []
        for m in re.finditer(r"^([A-Za-z0-9]+?)(caster)?_(\d+):$", teal, re.M):
            name, caster = m.group(1), m.group(2)
            if name not in sigs:
                continue
            if caster:
                decl.append((m.group(0)[:-1], [], []))
            else:
                args, ret = sigs[name]
                rets = [] if ret is None else [ret[0]]
                decl.append((m.group(0)[:-1], list(args)[::-1], rets))
        return decl

    def msel(self, teal):
        return msel_of(teal)

    def contexts(self, rng):
        """one context per example method call, plus the bare create call and a bare opt-in"""
        out = []
        base = lambda args, appid, oc: (
            S("ctx"), (S("mode"), S("app")), (S("gi"), 0), (S("app-id"), 77),
            (S("group"), ((S("fields"), ("Fee", 1000), ("NumAppArgs", len(args)), ("ApplicationID", appid), ("OnCompletion", oc),
                           ("TypeEnum", 6), ("Sender", bytes(32)), ("GroupIndex", 0)),
                          (S("arrays"), ("ApplicationArgs", tuple(args))))),
            (S("globals"), ("MinTxnFee", 1000), ("GroupSize", 1), ("ZeroAddress", bytes(32))),
            (S("fuel"), 6000))
        for sig, args in ROUTERS[self.name][2]:
            out.append(base([selector(sig)] + list(args), 77, 0))
        out.append(base([], 0, 0))
        out.append(base([], 77, 1))
        return out

    def has_ctrl_in_operand(self):
        return False

    def optimiser_on(self):
        return self.ss is True or (self.ss is None and self.version >= 9)

    def describe(self):
        return {"kind": "router", "router": self.name, "which": self.which, "recipe": repr(self.recipe), "subdefs": "[]",
                "version": self.version, "mode": "app", "scratch_slots": self.ss, "frame_pointers": self.fp,
                "teal": self.real[1].split("\n") if self.real and self.real[0] == "ok" else repr(self.real), "decl": self.decl,
                "msel": [(s, sel.hex()) for s, sel in (self.msel(self.real[1]) if self.real and self.real[0] == "ok" else [])]}


def all_cases(versions=(6, 7, 8, 9, 10)):
    for name in ROUTERS:
        for v in versions:
            for _, ss, fp in OPTS:
                for which in ("approval", "clear"):
                    yield RouterCase(name, which, v, ss, fp)
