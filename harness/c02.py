"""C02 — subroutine calls behave as function calls, including recursion."""
import json
import sys

from common import *  # noqa

ensure_env()
from progcorpus import *  # noqa
from gen_subs import gen_sub_program

PROOF_FILES = ["Comp/SpillSem.v", "Proofs/SpillProof.v", "Proofs/PrologueProof.v", "Proofs/CallPartial.v", "Proofs/CallExamples.v"]
# composition (Props/C02_compose.v): linked code with callsub/retsub and a call stack computes the call-aware source semantics;
# CallX/* re-checks the C01 chain against a call oracle (13 of its files are generated from Proofs/ by harness/tools/callx_gen.py)
COMPOSE_FILES = ["Comp/LinkedSem.v"] + ['CallX/Denote.v', 'CallX/EndToEnd.v', 'CallX/EndToEndGlue.v', 'CallX/FlattenCorrect.v', 'CallX/GraphSem.v', 'CallX/LinearSem.v', 'CallX/LowerCorrect.v', 'CallX/LowerLemmas.v', 'CallX/NormalizeCorrect.v', 'CallX/NormalizeLowered.v', 'CallX/NormalizeSem.v', 'CallX/SimCheck.v', 'CallX/SlotCompose.v', 'CallX/SlotComposeCover.v', 'CallX/SlotComposeEnd.v', 'CallX/SlotComposeFinal.v', 'CallX/SortCorrect.v'] + ['Proofs/CallComposeAcyclic.v', 'Proofs/CallComposeBind.v', 'Proofs/CallComposeByValue.v', 'Proofs/CallComposeByValueExample.v', 'Proofs/CallComposeByValueFinal.v', 'Proofs/CallComposeExamples.v', 'Proofs/CallComposeFinal.v', 'Proofs/CallComposeFrame.v', 'Proofs/CallComposeLayout.v', 'Proofs/CallComposeLink.v', 'Proofs/CallComposeMachine.v', 'Proofs/CallComposeMain.v', 'Proofs/CallComposeProgram.v', 'Proofs/CallComposeProtect.v', 'Proofs/CallComposeSpill.v', 'Proofs/CallComposeSpillPass.v']
# machine level (Props/C02_machine.v): Machine.step simulates the linked semantics (call stack included), the printed text of a program with
# subroutines parses to the linked program, frame-pointer call protocol on the machine
MACHINE_FILES = ['Proofs/CallMachineExamples.v', 'Proofs/CallMachineFpSem.v', 'Proofs/CallMachineFrame.v', 'Proofs/CallMachineProgram.v', 'Proofs/CallMachineSim.v', 'Proofs/CallMachineText.v']
EXTRA_PROPS = ["Props/C02_compose.v", "Props/C02_machine.v"]


def I_(n):
    return ("op", "int", (n,), "u", ())


def P(i):
    return ("param", i)


# ---- known-finding witnesses (each is (prepare, main, version, ss, fp, class id)) ----
def witness_ctrl_in_operand():
    def prep(b):
        # def f(a): return Int(5) + Seq(Return(a), Int(2))   -> `int 5; <a>; retsub`: the caller's 10 - f(3) computes 5 - 3
        b.define_sub("f", "f", "u", "v", ("nary", "+", "u", (I_(5), ("seq", ("return", P(0)), I_(2)))))
    main = ("seq", ("op", "log", (), "n", (("op", "itob", (), "b", (("op", "-", (), "u", (I_(10), ("call", "f", (I_(3),)))),)),)), ("exit", I_(1)))
    return prep, main


def witness_orphan_store():
    def prep(b):
        # def g(a): x.store(1); x.store(a); return x.load()  with scratch_slots=True -> the first store's value stays on the stack
        b.define_sub("g", "g", "u", "v", ("seq", ("op", "store", (("slot", "gx"),), "n", (I_(1),)),
                                          ("op", "store", (("slot", "gx"),), "n", (P(0),)),
                                          ("return", ("op", "load", (("slot", "gx"),), "u", ()))))
    main = ("seq", ("op", "log", (), "n", (("op", "itob", (), "b", (("op", "-", (), "u", (I_(10), ("call", "g", (I_(7),)))),)),)), ("exit", I_(1)))
    return prep, main


def witness_spill_mixed_types():
    def prep(b):
        # f : none <-> g : uint64, both with a local that is live across the recursive call
        b.define_sub("f", "f", "n", "v", ("seq", ("op", "store", (("slot", "fl"),), "n", (("nary", "+", "u", (P(0), I_(100))),)),
                                          ("if", ("op", "==", (), "u", (P(0), I_(0))), ("return",),
                                           ("seq", ("op", "pop", (), "n", (("call", "g", (("op", "-", (), "u", (P(0), I_(1))),)),)),
                                            ("op", "log", (), "n", (("op", "itob", (), "b", (("op", "load", (("slot", "fl"),), "u", ()),)),))))))
        b.define_sub("g", "g", "u", "v", ("seq", ("op", "store", (("slot", "gl"),), "n", (("nary", "+", "u", (P(0), I_(200))),)),
                                          ("if", ("op", "==", (), "u", (P(0), I_(0))), ("return", I_(1)),
                                           ("seq", ("call", "f", (("op", "-", (), "u", (P(0), I_(1))),)),
                                            ("return", ("op", "load", (("slot", "gl"),), "u", ()))))))
    main = ("seq", ("call", "f", (I_(3),)), ("op", "log", (), "n", (("op", "itob", (), "b", (("call", "g", (I_(2),)),)),)), ("exit", I_(1)))
    return prep, main


def directed_cases():
    """hand-written canonical call shapes, run over every version/option combination"""
    L = lambda e: ("op", "log", (), "n", (("op", "itob", (), "b", (e,)),))
    ld = lambda k: ("op", "load", (("slot", k),), "u", ())
    st = lambda k, e: ("op", "store", (("slot", k),), "n", (e,))
    add = lambda *a: ("nary", "+", "u", tuple(a))
    sub = lambda a, b: ("op", "-", (), "u", (a, b))
    eq = lambda a, b: ("op", "==", (), "u", (a, b))
    out = []

    def case(name, defs, main):
        def prep(b, defs=defs):
            for d in defs:
                b.define_sub(*d)
        out.append((name, prep, ("seq",) + tuple(main) + (("exit", I_(1)),)))

    # by-reference, forwarded through a second routine, used twice
    case("byref-forward",
         [("inner", "inner", "n", "r", ("refstore", 0, add(("refload", 0, "u"), I_(1)))),
          ("outer", "outer", "n", "r", ("seq", ("call", "inner", (("paramref", 0),)), ("call", "inner", (("paramref", 0),))))],
         [st("x", I_(40)), st("y", I_(7)), ("call", "outer", (("varref", "x"),)), ("call", "inner", (("varref", "y"),)), L(ld("x")), L(ld("y"))])
    # by-reference swap of two variables + by-value mixed
    case("byref-swap",
         [("swap", "swap", "n", "rr", ("seq", st("t", ("refload", 0, "u")), ("refstore", 0, ("refload", 1, "u")), ("refstore", 1, ld("t")))),
          ("mix", "mix", "u", "vrv", ("seq", ("refstore", 1, add(("refload", 1, "u"), P(0))), ("return", sub(P(2), P(0)))))],
         [st("a", I_(1)), st("b", I_(2)), ("call", "swap", (("varref", "a"), ("varref", "b"))), L(ld("a")), L(ld("b")),
          L(("call", "mix", (I_(3), ("varref", "a"), I_(10)))), L(ld("a"))])
    # recursion with a live local, result combined after the call (spill/restore), call in operand position
    case("rec-local",
         [("tri", "tri", "u", "v", ("seq", st("keep", P(0)), ("if", eq(P(0), I_(0)), ("return", I_(0)),
                                                               ("return", add(("call", "tri", (sub(P(0), I_(1)),)), ld("keep"))))))],
         [L(sub(I_(1000), ("call", "tri", (I_(4),)))), L(("call", "tri", (I_(0),)))])
    # recursion, two locals, two arguments, none-typed with logs
    case("rec-none-2args",
         [("walk", "walk", "n", "vv", ("seq", st("k1", add(P(0), P(1))), st("k2", sub(I_(100), P(0))),
                                       ("if", eq(P(0), I_(0)), ("return",), ("seq", ("call", "walk", (sub(P(0), I_(1)), add(P(1), I_(2)))), L(ld("k1")), L(ld("k2"))))))],
         [("call", "walk", (I_(3), I_(5)))])
    # mutual recursion between a value-returning and a none routine with locals
    case("mutual-mixed",
         [("ev", "ev", "u", "v", ("seq", st("e1", add(P(0), I_(200))), ("if", eq(P(0), I_(0)), ("return", I_(1)),
                                                                         ("seq", ("call", "od", (sub(P(0), I_(1)),)), ("return", ld("e1")))))),
          ("od", "od", "n", "v", ("seq", st("o1", add(P(0), I_(100))), ("if", eq(P(0), I_(0)), ("return",),
                                                                        ("seq", ("op", "pop", (), "n", (("call", "ev", (sub(P(0), I_(1)),)),)), L(ld("o1"))))))],
         [("call", "od", (I_(3),)), L(("call", "ev", (I_(2),)))])
    # early returns at several positions, Approve inside a routine
    case("early-return",
         [("pick", "pick", "u", "v", ("seq", ("if", eq(P(0), I_(1)), ("return", I_(11))), ("if", eq(P(0), I_(2)), ("seq", L(I_(22)), ("return", I_(12)))),
                                      ("if", eq(P(0), I_(9)), ("exit", I_(1))), ("return", I_(13))))],
         [L(("call", "pick", (I_(1),))), L(("call", "pick", (I_(2),))), L(("call", "pick", (I_(3),))), L(add(I_(5), ("call", "pick", (I_(2),)))),
          ("op", "pop", (), "n", (("call", "pick", (I_(9),)),)), L(I_(99))])
    # nested calls as arguments, left-to-right evaluation of arguments with effects
    case("nested-args",
         [("eff", "eff", "u", "v", ("seq", L(P(0)), ("return", add(P(0), I_(1))))),
          ("three", "three", "u", "vvv", ("return", sub(add(P(0), P(2)), P(1))))],
         [L(("call", "three", (("call", "eff", (I_(10),)), ("call", "eff", (I_(20),)), ("call", "eff", (("call", "eff", (I_(30),)),)))))])
    # a recursive routine owns a local that it passes BY REFERENCE to a non-recursive helper and reads again after its re-entrant call:
    # the address-taken local must still be spilled around the recursion
    case("rec-local-byref-helper",
         [("bump", "bump", "n", "r", ("refstore", 0, add(("refload", 0, "u"), I_(1)))),
          ("f", "f", "u", "v", ("seq", st("loc", ("nary", "*", "u", (P(0), I_(10)))), ("call", "bump", (("varref", "loc"),)),
                                ("if", eq(P(0), I_(0)), ("return", I_(0)), ("return", add(("call", "f", (sub(P(0), I_(1)),)), ld("loc"))))))],
         [L(("call", "f", (I_(2),))), L(sub(I_(100), ("call", "f", (I_(1),))))])
    # diamond recursion: hub -> left -> shared -> hub and hub -> right -> shared -> hub; BOTH of hub's calls are re-entrant (each path back to
    # hub runs through `shared`), so hub's live parameter / local must be saved around both
    case("diamond-recursion",
         [("shared", "shared", "u", "v", ("if", eq(P(0), I_(0)), ("return", I_(0)), ("return", ("call", "hub", (sub(P(0), I_(1)),))))),
          ("left", "left", "u", "v", ("return", add(("call", "shared", (P(0),)), I_(1)))),
          ("right", "right", "u", "v", ("return", add(("call", "shared", (P(0),)), I_(100)))),
          ("hub", "hub", "u", "v", ("seq", st("hloc", ("nary", "*", "u", (P(0), I_(7)))),
                                    ("return", add(("call", "left", (P(0),)), ("call", "right", (P(0),)), ld("hloc"), P(0)))))],
         [L(("call", "hub", (I_(2),))), L(("call", "hub", (I_(0),)))])
    # bytes-returning routine, zero arguments, odd name
    case("bytes-noargs",
         [("greet", "say hi!", "b", "", ("return", ("nary", "concat", "b", (("op", "byte", ("0x6869",), "b", ()), ("op", "itob", (), "b", (I_(7),))))))],
         [("op", "log", (), "n", (("call", "greet", ()),)), ("op", "log", (), "n", (("nary", "concat", "b", (("call", "greet", ()), ("call", "greet", ()))),))])
    return out


def call_edges(recipe, acc):
    if isinstance(recipe, tuple):
        if recipe and recipe[0] == "call":
            acc.add(recipe[1])
        for x in recipe:
            call_edges(x, acc)
    return acc


def spill_mixed_class(builder):
    """class predicate of the spill finding: a call edge inside a recursion cycle between a routine that returns
    a value and one that does not"""
    subs = builder.subs
    graph = {k: call_edges(v["body"], set()) for k, v in subs.items()}

    def reach(a, b):
        seen, stack = set(), list(graph.get(a, ()))
        while stack:
            x = stack.pop()
            if x == b:
                return True
            if x in seen:
                continue
            seen.add(x)
            stack += list(graph.get(x, ()))
        return False
    for a in graph:
        for b in graph[a]:
            if b in subs and reach(b, a) and (subs[a]["ret"] == "n") != (subs[b]["ret"] == "n"):
                return True
    return False


def classify(model, c):
    """which known-finding classes does this case belong to?"""
    out = []
    if c.builder is not None:
        if any(has_ctrl_in_operand(sb["body"]) for sb in c.builder.subs.values()) or has_ctrl_in_operand(c.recipe):
            out.append("ctrl-in-operand")
        if spill_mixed_class(c.builder):
            out.append("spill-uses-callers-return-type")
    r = model.ask("(opt-orphans %s %s)" % (c.wire_opts, c.wire_prog))
    if isinstance(r, list) and r and r[0] == S("ok") and len(r) > 1:
        out.append("optimizer-orphan-store")
    return out


def sem_check(ck, model, rng, c, nctx, stats):
    fails = []
    for _ in range(nctx):
        ctx = gen_context(rng, c.app)
        a = run_teal(model, ctx, c.real[1])
        d = run_denote_c(model, ctx, c)
        oa, od = observable(a), observable(d)
        ck.count(("sem", c.wire_prog, c.wire_opts, sx(ctx)))
        if oa is None or od is None:
            stats["inconclusive"] = stats.get("inconclusive", 0) + 1
            continue
        stats[oa[0]] = stats.get(oa[0], 0) + 1
        if oa != od:
            fails.append({"kind": "semantic", "case": c.describe(), "subs": {k: repr(v["body"]) for k, v in c.builder.subs.items()},
                          "ctx": sx(ctx), "avm": repr(a)[:3000], "denote": repr(d)[:3000]})
    return fails


def main(argv):
    args = parse_args(argv)
    if args.replay:
        data = json.load(open(args.replay))
        print(json.dumps({k: data[k] for k in data if k in ("what", "kind", "broken", "case", "subs")}, indent=1)[:6000])
        return 0
    ck = Check("C02", args.tier)
    thorough = args.tier == "thorough"
    import pyteal as pt
    rc, out = sh("%s %s/harness/translate.py" % (PY, VERIF))
    if rc != 0:
        ck.violation("translator aborted", {"broken": "harness/translate.py", "log": out[-2000:]}, no_failing_input=True)
        return ck.finish(level="proof", rule="translator failed")
    ck.run_proofs("Props/C02.v", PROOF_FILES + COMPOSE_FILES + MACHINE_FILES, extra_targets=["Extract/Main.vo"], extra_props=EXTRA_PROPS)
    model = Model()
    rng = ck.rng
    mismatches, semfails, stats, outcomes, classes_seen = [], [], {}, {}, {}

    def consider(c, nctx):
        if c.real[0] == "build-exc":
            outcomes["unbuildable:" + c.real[1]] = outcomes.get("unbuildable:" + c.real[1], 0) + 1
            return
        so = same_outcome(c)
        key = c.real[0] if c.real[0] != "exc" else c.real[1]
        outcomes[key] = outcomes.get(key, 0) + 1
        ck.count(("compile", c.wire_prog, c.wire_opts), nontrivial=(c.real[0] == "ok"))
        if so is None:
            outcomes["model-unsupported"] = outcomes.get("model-unsupported", 0) + 1
        elif not so:
            mismatches.append(c)
        if c.real[0] == "ok":
            fails = sem_check(ck, model, rng, c, nctx if so else max(nctx, 10), stats)
            if fails:
                cls = classify(model, c)
                if cls and so:
                    for k in cls:
                        classes_seen[k] = classes_seen.get(k, 0) + 1
                else:
                    semfails.extend(fails)
            ck.sample({"subs": [(k, v["name"], v["ret"], v["kinds"]) for k, v in c.builder.subs.items()], "version": c.version,
                       "frame_pointers": c.fp, "scratch_slots": c.ss, "teal_lines": len(c.real[1].split("\n"))}, limit=5)

    # 1. known findings replayed against the real code (the line is printed only while the replay still fails)
    for fid, (prep, mainr), version, ss, fp, what in [
        ("ctrl-in-operand", witness_ctrl_in_operand(), 6, None, None,
         "Return inside an operand (Int(5) + Seq(Return(a), Int(2))) leaves the earlier operand on the caller's stack: Int(10) - f(Int(3)) computes 5 - 3"),
        ("optimizer-orphan-store", witness_orphan_store(), 6, True, None,
         "scratch_slots=True deletes `x.store(1)` of a slot whose later store/load pair is cancelled; the value stays on the stack and the caller's Int(10) - g(Int(7)) miscomputes"),
        ("spill-uses-callers-return-type", witness_spill_mixed_types(), 6, None, None,
         "mutual recursion between f:none and g:uint64 with live locals: the spill code is chosen by the CALLER's return type, so slots/stack are restored wrongly"),
    ]:
        c = compile_case(pt, model, mainr, version, True, ss, fp, prepare=prep)
        if c.real[0] != "ok":
            continue
        ctx = gen_context(rng, True)
        a = run_teal(model, ctx, c.real[1])
        d = run_denote_c(model, ctx, c)
        ck.count(("known", fid))
        if observable(a) != observable(d):
            if ck.match_known(lambda f: f.get("id") == fid):
                ck.known(fid, what)
            else:
                semfails.append({"kind": "semantic", "case": c.describe(), "ctx": sx(ctx), "avm": repr(a)[:2000], "denote": repr(d)[:2000]})

    # 2. directed call shapes over the whole version/option matrix
    for name, prep, mainr in directed_cases():
        for version in ([4, 5, 6, 7, 8, 9, 10] if thorough else [5, 6, 8, 9, 10]):
            if version < 5 and ("byref" in name):
                continue
            for ss in (None, True, False):
                for fp in ((None, False, True) if version >= 8 else (None,)):
                    consider(compile_case(pt, model, mainr, version, True, ss, fp, prepare=prep), 1)

    # 2b. free-form real programs with features outside the recipe language (ABI-returning routines with by-reference
    #     parameters, DynamicScratchVar, NamedTuple ...): each is written to approve iff its own arithmetic - which goes through
    #     argument passing, by-reference writes, results and recursion - comes out right; the oracle is the program's own
    #     expected value, no model is involved
    import c03_free
    free_n = 0
    for name, minv, build in c03_free.programs(pt):
        for version in ([6, 7, 8, 9, 10] if thorough else [6, 8, 10]):
            if version < minv:
                continue
            for ss, fp in c03_free.option_matrix(version):
                r = call_real(lambda: pt.compileTeal(build(), pt.Mode.Application, version=version, optimize=optimize_of(pt, ss, fp)))
                ck.count(("free", name, version, ss, fp), nontrivial=(r[0] == "ok"))
                free_n += 1
                if r[0] != "ok":
                    if r[1] not in PYTEAL_ERRORS:
                        semfails.append({"kind": "free-crash", "program": name, "version": version, "scratch_slots": ss, "frame_pointers": fp, "avm": r[1], "denote": "TEAL expected"})
                    continue
                ctx = gen_context(rng, True)
                a = run_teal(model, ctx, r[1])
                o = observable(a)
                if o is not None and o[0] != repr(S("approve")):
                    semfails.append({"kind": "free-verdict", "program": name, "version": version, "scratch_slots": ss, "frame_pointers": fp, "ctx": sx(ctx), "teal": r[1],
                                     "avm": repr(a)[:1500], "denote": "approve (the program checks its own arithmetic)"})
    # the slow one (25 s per compilation): a self-recursive ABI-returning routine with locals of different storage types, under the
    # scratch convention only (the spill code is what is being exercised)
    for name, minv, build in c03_free.slow_programs(pt):
        for version, fp in ([(6, None), (8, False)] if not thorough else [(5, None), (6, None), (7, None), (8, False), (10, False)]):
            r = call_real(lambda: pt.compileTeal(build(), pt.Mode.Application, version=version, optimize=optimize_of(pt, None, fp)))
            ck.count(("free-slow", name, version, fp), nontrivial=(r[0] == "ok"))
            free_n += 1
            if r[0] != "ok":
                if r[1] not in PYTEAL_ERRORS:
                    semfails.append({"kind": "free-crash", "program": name, "version": version, "frame_pointers": fp, "avm": r[1], "denote": "TEAL expected"})
                continue
            ctx = gen_context(rng, True)
            a = run_teal(model, ctx, r[1])
            o = observable(a)
            if o is not None and o[0] != repr(S("approve")):
                semfails.append({"kind": "free-verdict", "program": name, "version": version, "frame_pointers": fp, "ctx": sx(ctx), "teal": r[1],
                                 "avm": repr(a)[:1500], "denote": "approve (the program checks its own arithmetic)"})
    ck.coverage["free_form_program_variants"] = free_n

    # 3. seeded random call graphs
    n = 5000 if thorough else 500
    for i in range(n):
        version = rng.choice([4, 5, 6, 7, 8, 8, 9, 10])
        app = rng.random() < 0.8
        ss = rng.choice([None, None, True, False])
        fp = rng.choice([None, None, False, True]) if version >= 8 else rng.choice([None, False])
        prepare, mainr, desc = gen_sub_program(rng, version, app)
        consider(compile_case(pt, model, mainr, version, app, ss, fp, prepare=prepare), 3 if thorough else 2)
    ck.coverage["compile_outcomes"] = outcomes
    ck.coverage["run_verdicts"] = stats
    ck.coverage["failures_attributed_to_known_classes"] = classes_seen

    for f in semfails[:5]:
        ck.violation("real TEAL and the call semantics disagree: avm=%s denote=%s" % (f["avm"][:80], f["denote"][:80]), f)
    if mismatches and not semfails:
        c = mismatches[0]
        ck.violation("correspondence broken: compile_model text differs from compileTeal on %d generated subroutine programs; the semantic search found no wrong behaviour" % len(mismatches),
                     {"kind": "correspondence", "broken": "text equality compileTeal vs Comp.Compile.compile_model (subroutines)", "case": c.describe(),
                      "subs": {k: repr(v["body"]) for k, v in c.builder.subs.items()}}, no_failing_input=True)
    if not ck.proof_ok and not semfails:
        ck.violation("proof obligation broken: Props/C02.v / Props/C02_compose.v / Props/C02_machine.v no longer check", {"kind": "proof", "broken": "Props/C02.v, Props/C02_compose.v, Props/C02_machine.v", "log": ck.proof_log[-1500:]}, no_failing_input=True)
    ck.coverage["disagreements_checked"] = len(mismatches) + len(semfails) + sum(classes_seen.values())
    ck.coverage["programs"] = sum(outcomes.values())
    model.close()
    return ck.finish(
        level="proof",
        rule="seeded random call graphs (1..4 subroutines, arity 0..4, by-value/by-reference parameters, return none/uint64/bytes, self recursion and recursion through earlier routines with live locals, "
             "call sites in statement and operand position, Return anywhere, odd names) over versions 4..10 x frame_pointers x scratch_slots; each compiled by the real compiler and the Coq model "
             "(text equality), each successful output executed on the extracted AVM against the call-aware source semantics; distinct = (recipe, options[, context]); non-trivial = compiles",
        trusted_base=[
            "AVM semantics coq/AVM incl. the inferred retsub-under-proto rule; source semantics coq/Src/DenoteCall.v (activation-local variables, by-reference = slot number)",
            "Comp/Compile.v models SubroutineEval (decl_body/param_instr), spillLocalSlotsDuringRecursion, resolveSubroutines, flattenSubroutines; tied by text equality each run",
            "harness/build.py (recipe -> public constructors; reads argument slots back from the evaluated declaration)",
            "Extraction: ExtrOcamlBasic + ExtrOcamlNativeString; driver.ml",
        ])


if __name__ == "__main__":
    sys.exit(run_main(main))
