"""C20 — Compilation is total: TEAL or a PyTeal error, never a crash.

(1) proofs: Props/C20.v (+ Props/C20_tree.v when present) over the compile model;
(2) correspondence / crash hunt: generated programs are compiled by the real compiler (compileTeal,
    Compilation.compile, Router.compile_program) and by the model; every real outcome is classified as
    TEAL | one of PyTeal's five error types | crash; the outcome CLASS is compared with the model's, the
    acceptance clause ("well-typed + constructs exist + <= 256 slots => accepted") is checked with the Coq
    well-typedness spec, and the real recursion depth of addIncoming is compared with the model's depth;
(3) deep / long / slow families run in worker interpreters (harness/c20_worker.py) at the default recursion limit,
    with a second, deep-stack attempt that feeds the class predicate of the recursion finding;
(4) known findings replayed against the real code on every run;  (5) verdict, --replay."""
import hashlib
import json
import os
import signal
import subprocess
import sys
import time
import traceback

from common import *  # noqa

ensure_env()
from progcorpus import *  # noqa
from build import Builder
from gen_subs import gen_sub_program
import build as _build

# Builder() introspects pyteal's field tables on every construction; the tables do not change within a run
_field_maps_orig = _build._field_maps
_field_maps_cache = {}
_build._field_maps = lambda pt: _field_maps_cache.setdefault(id(pt), _field_maps_orig(pt))

PROOF_FILES = ["Src/WellTyped.v", "Proofs/TotalityChain.v", "Proofs/TotalityWalk.v", "Proofs/TotalityAccept.v", "Proofs/TotalityWitness.v"]
TREE_PROPS = "Props/C20_tree.v"          # owned by the tree-validity part of this property; used when present
WORKER = os.path.join(VERIF, "harness", "c20_worker.py")
PYTEAL_ERROR_NAMES = PYTEAL_ERRORS + ("TealSeqError",)        # TealSeqError subclasses TealTypeError


# ---------------------------------------------------------------------------------------------
# calling the implementation
# ---------------------------------------------------------------------------------------------
class CaseTimeout(Exception):
    pass


def _alarm(signum, frame):
    raise CaseTimeout()


def tb_summary(e, n=5):
    tb = traceback.extract_tb(e.__traceback__)
    inner = [(os.path.relpath(f.filename, REPO) if f.filename.startswith(REPO) else os.path.basename(f.filename), f.name) for f in tb[-n:]]
    names = {}
    for f in tb:
        if f.filename.startswith(REPO):
            names[f.name] = names.get(f.name, 0) + 1
    return {"inner": inner, "top": sorted(names.items(), key=lambda kv: -kv[1])[:4], "len": len(tb)}


def real_call(pt, fn, timeout=20.0):
    """Run fn() inside the implementation.  -> dict(outcome= ok | pyteal | crash | timeout, ...)"""
    errs = tuple(getattr(pt, n) for n in PYTEAL_ERRORS)

    def inner():
        signal.signal(signal.SIGALRM, _alarm)
        signal.setitimer(signal.ITIMER_REAL, timeout)
        try:
            return {"outcome": "ok", "value": fn()}
        except CaseTimeout:
            return {"outcome": "timeout"}
        except RecursionError as e:
            return {"outcome": "crash", "exc": "RecursionError", "msg": "", "tb": tb_summary(e)}
        except Exception as e:  # noqa
            return {"outcome": "pyteal" if isinstance(e, errs) else "crash", "exc": type(e).__name__,
                    "msg": str(e)[:200].replace("\n", " "), "tb": tb_summary(e)}
        finally:
            signal.setitimer(signal.ITIMER_REAL, 0)
    r = call_real(inner)
    if r[0] == "ok":
        return r[1]
    return {"outcome": "crash", "exc": r[1], "msg": r[2], "tb": None}


def stack_depth():
    d, f = 0, sys._getframe()
    while f is not None:
        d += 1
        f = f.f_back
    return d


class NestMeter:
    """peak nesting / number of calls of given code objects (PEP 669 local events: only those functions are instrumented)"""

    def __init__(self, codes):
        self.codes = list(codes)
        self.cur = 0
        self.peak = 0
        self.calls = 0

    def __enter__(self):
        mon = sys.monitoring
        E = mon.events
        self.tool = 3           # a free tool id (0 debugger, 1 coverage, 2 profiler, 5 optimizer are reserved names)
        mon.use_tool_id(self.tool, "c20")
        cs = set(self.codes)

        def start(code, off):
            if code in cs:
                self.calls += 1
                self.cur += 1
                if self.cur > self.peak:
                    self.peak = self.cur

        def leave(code, off, val):
            if code in cs:
                self.cur -= 1
        # (PY_UNWIND cannot be a local event; a walk that ends in an exception is not measured)
        mon.register_callback(self.tool, E.PY_START, start)
        mon.register_callback(self.tool, E.PY_RETURN, leave)
        for c in self.codes:
            mon.set_local_events(self.tool, c, E.PY_START | E.PY_RETURN)
        return self

    def __exit__(self, *a):
        mon = sys.monitoring
        for c in self.codes:
            mon.set_local_events(self.tool, c, 0)
        mon.free_tool_id(self.tool)
        return False


# ---------------------------------------------------------------------------------------------
# one case = recipe + configuration
# ---------------------------------------------------------------------------------------------
class C20Case:
    def __init__(self, recipe, version, app, ss, fp, subs=None, assemble=False, reserved=None):
        self.recipe, self.version, self.app, self.ss, self.fp = recipe, version, app, ss, fp
        self.subs = subs or []            # [(key, name, ret, kinds, body)]
        self.assemble = assemble          # compileTeal(..., assembleConstants=True): real compiler only (no model of the constant blocks here)
        self.reserved = reserved or {}    # symbolic slot -> requested slot id
        self.builder = None
        self.expr = None
        self.build = None                 # real_call dict of construction
        self.realx = None                 # real_call dict of compilation
        self.real = None                  # progcorpus format, for same_outcome
        self.model = None
        self.wire_prog = self.wire_opts = None
        self.ai_peak = None
        self.base_depth = None
        self.shape = None

    def key(self):
        return (repr(self.recipe), repr(self.subs), self.version, self.app, self.ss, self.fp, self.assemble, repr(sorted(self.reserved.items(), key=repr)))

    def describe(self):
        d = {"recipe": repr(self.recipe), "version": self.version, "mode": "app" if self.app else "sig",
             "scratch_slots": self.ss, "frame_pointers": self.fp, "assemble_constants": self.assemble,
             "reserved": [[repr(k), v] for k, v in self.reserved.items()],
             "subs": [[k, n, r, kd, repr(b)] for (k, n, r, kd, b) in self.subs]}
        if self.build is not None and self.build["outcome"] != "ok":
            d["construction"] = {k: v for k, v in self.build.items() if k != "value"}
        if self.realx is not None:
            d["real"] = {k: (v if k != "value" else v.split("\n")[:60]) for k, v in self.realx.items()}
        if self.model is not None:
            d["model"] = repr(self.model)[:1500]
        return d


def prepare_of(subs):
    def prep(b):
        for key, name, ret, kinds, body in subs:
            b.define_sub(key, name, ret, kinds, body)
    return prep


def run_case(pt, model, c, measure=False, timeout=20.0, ask_model=True):
    b = Builder(pt)
    c.builder = b

    def build():
        for k_, v_ in c.reserved.items():
            b.request_slot(k_, v_)
        prepare_of(c.subs)(b)
        return b.build(c.recipe)
    c.build = real_call(pt, build, timeout)
    if c.build["outcome"] != "ok":
        c.real = ("build-exc", c.build.get("exc", "timeout"), c.build.get("msg", ""))
        return c
    c.expr = c.build["value"]
    if b.subs:
        use_fp = c.fp if c.fp is not None else c.version >= 8
        if not (use_fp and c.version < 8):
            r2 = real_call(pt, lambda: b.evaluate_subs(use_fp), timeout)
            if r2["outcome"] != "ok":
                c.build = r2
                c.real = ("build-exc", r2.get("exc", "timeout"), r2.get("msg", ""))
                return c

    def comp():
        return pt.compileTeal(c.expr, mode_of(pt, c.app), version=c.version, optimize=optimize_of(pt, c.ss, c.fp), assembleConstants=c.assemble)
    c.base_depth = stack_depth()
    if measure:
        with NestMeter([pt.TealBlock.addIncoming.__code__]) as m:
            c.realx = real_call(pt, comp, timeout)
        c.ai_peak = m.peak
    else:
        c.realx = real_call(pt, comp, timeout)
    o = c.realx["outcome"]
    c.real = ("ok", c.realx["value"]) if o == "ok" else ("exc", c.realx.get("exc", "Timeout"), c.realx.get("msg", ""))
    if ask_model and not c.assemble:
        c.wire_prog = b.wire_prog(c.recipe)
        c.wire_opts = wire_opts(c.version, c.app, c.ss, c.fp)
        if measure and not c.subs:
            both = model.ask("(both %s %s)" % (c.wire_opts, c.wire_prog))
            c.model, c.shape = both[1], both[2]
        else:
            c.model = model.ask("(compile %s %s)" % (c.wire_opts, c.wire_prog))
    return c


def model_class(c):
    """ok | TealXError | AssertionError | RecursionError | unsupported | ?"""
    m = c.model
    if m is None:
        return "?"
    if m[0] == S("ok"):
        return "ok"
    if m[0] == S("err"):
        if isinstance(m[1], list):
            return "unsupported" if m[1] and m[1][0] == S("unsupported") else "crash-other"
        return repr(m[1])
    return "?"


def real_class(c):
    o = c.realx["outcome"]
    if o == "ok":
        return "ok"
    if o == "timeout":
        return "timeout"
    return c.realx["exc"]


# ---------------------------------------------------------------------------------------------
# recipes: C20's own shapes, mutations, shrinking
# ---------------------------------------------------------------------------------------------
FEE = ("op", "txn", ("Fee",), "u", ())


def lt(a, b):
    return ("op", "<", (), "u", (a, b))


def pop(e):
    return ("op", "pop", (), "n", (e,))


def st(k, e):
    return ("op", "store", (("slot", k),), "n", (e,))


def ld(k, t="u"):
    return ("op", "load", (("slot", k),), t, ())


def inc(k):
    return ("nary", "+", "u", (ld(k), I(1)))


APPROVE = ("exit", I(1))
C1 = lt(FEE, I(3))
W_LOOP_FIRST = ("seq", ("while", C1, pop(I(1))), APPROVE)
W_LOOP_CONTINUE = ("seq", ("while", I(1), "continue"), APPROVE)
W_IF_EMPTY_THEN_LOOP = ("seq", pop(I(1)), ("if", lt(FEE, I(2)), ("seq",)), ("while", C1, pop(I(1))), APPROVE)
W_OPT = ("seq", st("i", I(0)),
         ("while", lt(("seq", st("x", inc("i")), ld("x")), I(5)),
          ("if", ("op", ">", (), "u", (FEE, I(5))), st("i", inc("i")))),
         APPROVE)


def c20_shapes():
    """degenerate control-flow shapes named by the property, beyond progcorpus.small_recipes()"""
    p1 = pop(I(1))
    out = [W_LOOP_FIRST, W_LOOP_CONTINUE, W_IF_EMPTY_THEN_LOOP, W_OPT]
    bodies = [p1, "break", "continue", ("seq",), ("seq", "break"), ("seq", p1, "continue"), ("if", C1, "break"), ("if", C1, "continue"),
              ("if", C1, "break", "continue"), ("if", C1, ("seq",)), ("if", C1, ("seq",), ("seq",)), ("while", C1, "break"),
              ("while", C1, ("seq",)), ("for", ("seq",), C1, ("seq",), ("seq",)), ("cond", (C1, "break")), ("cond", (C1, p1), (I(1), "continue")),
              ("assert", (C1,)), ("assert", (C1, I(1))), ("assert", (C1,), "msg"), APPROVE, ("return", I(1))]
    for b in bodies:
        out.append(("seq", ("while", C1, b), APPROVE))
        out.append(("seq", ("while", I(1), b), APPROVE))
        out.append(("seq", ("while", I(0), b), APPROVE))
        out.append(("seq", ("for", ("seq",), C1, ("seq",), b), APPROVE))
        out.append(("seq", ("for", p1, C1, p1, b), APPROVE))
        out.append(("seq", ("if", C1, ("seq",)), ("while", C1, b), APPROVE))
        out.append(("seq", ("if", C1, ("seq",), ("seq",)), ("while", C1, b), APPROVE))
        out.append(("seq", ("while", C1, ("while", C1, b)), APPROVE))
        out.append(("seq", ("while", C1, b), ("while", C1, b), APPROVE))
        out.append(("while", C1, b))                        # the loop is the whole program
    # empty things
    out += [("seq",), ("seq", ("seq",)), ("seq", ("seq",), ("seq", ("seq",), ("seq",))), ("seq", ("seq",), APPROVE),
            ("if", C1, ("seq",)), ("if", C1, ("seq",), ("seq",)), ("seq", ("if", C1, ("seq",), ("seq",)), APPROVE),
            ("cond", (C1, ("seq",))), ("cond", (C1, APPROVE)), ("cond", (C1, I(1))), ("cond", (C1, I(1)), (I(1), I(0))),
            ("for", ("seq",), C1, ("seq",), ("seq",)), ("while", C1, ("seq",)), ("while", I(1), ("seq",))]
    # Return / Approve in the middle, code after it
    out += [("seq", ("return", I(1)), p1, APPROVE), ("seq", APPROVE, APPROVE), ("seq", APPROVE, ("while", C1, p1), APPROVE),
            ("seq", ("if", C1, ("return", I(1))), p1, ("return", I(0))), ("seq", ("if", C1, APPROVE, ("return", I(0))), p1),
            ("seq", ("while", C1, ("return", I(1))), ("return", I(0))), ("if", C1, ("return", I(1)), ("return", I(0))),
            ("cond", (C1, ("return", I(1))), (I(1), APPROVE))]
    # Assert forms
    out += [("seq", ("assert", (C1,)), APPROVE), ("seq", ("assert", (C1, C1, I(1))), APPROVE), ("seq", ("assert", (C1,), "why"), APPROVE),
            ("seq", ("assert", (C1, I(1)), "two\nlines"), APPROVE), ("assert", (C1,))]
    # MaybeValue
    mv = ("multi", "app_global_get_ex", (), (I(0), B(b"k")), 2, "mv1")
    out += [("seq", mv, pop(ld(("mv1", 1))), APPROVE), ("seq", ("while", C1, ("seq", mv, pop(ld(("mv1", 1))))), APPROVE),
            ("seq", mv, ("if", ld(("mv1", 1)), pop(ld(("mv1", 0), "a"))), APPROVE)]
    # scratch variables inside loop conditions (the optimiser's block comparison), store/load adjacency
    conds = [lt(ld("i"), I(3)), lt(("seq", st("x", inc("i")), ld("x")), I(5))]
    bodies2 = [st("i", inc("i")), ("if", ("op", ">", (), "u", (FEE, I(5))), st("i", inc("i"))),
               ("if", C1, st("i", inc("i")), st("i", I(9))), ("seq", st("y", ld("i")), st("i", ("nary", "+", "u", (ld("y"), I(1))))),
               ("if", C1, "break"), ("while", C1, ("if", C1, "break")), ("cond", (C1, st("i", inc("i"))), (I(1), "break")),
               ("seq", ("if", C1, ("seq",)), ("if", C1, "continue"))]
    for cd in conds:
        for b in bodies2:
            out.append(("seq", st("i", I(0)), ("while", cd, b), APPROVE))
            out.append(("seq", st("i", I(0)), ("for", st("x", I(0)), cd, st("i", inc("i")), b), APPROVE))
    # identical twin blocks with a store/load pair in each arm (structural vs identity comparison)
    pair = ("seq", st("t", FEE), pop(ld("t")))
    out += [("seq", ("if", C1, pair, pair), APPROVE), ("seq", pair, pair, APPROVE), ("seq", ("if", C1, pair), pair, APPROVE),
            ("seq", ("while", C1, pair), pair, APPROVE)]
    return out


def directed_ctrl_shapes():
    """loops whose body ends in If(c).Then(Continue/Break).Else(Break/Continue), followed by plain statements and further
    loops: sortBlocks lays a loop's exit out before its body, so such an If has BOTH successors far (flattenBlocks' last case)"""
    li = lt(ld("i"), I(10))
    lj = lt(ld("j"), I(20))
    odd = ("op", "%", (), "u", (ld("i"), I(2)))
    out = []
    for a, b in (("continue", "break"), ("break", "continue"), ("continue", "continue"), ("break", "break"), ("continue", pop(I(7))), (pop(I(7)), "break")):
        tail_if = ("if", odd, a, b)
        loop1 = ("while", li, ("seq", st("i", inc("i")), tail_if))
        loop1f = ("for", st("i", I(0)), li, st("i", inc("i")), ("seq", pop(I(1)), tail_if))
        loop2 = ("while", lj, st("j", ("nary", "+", "u", (ld("j"), I(3)))))
        for l1 in (loop1, loop1f):
            out.append(("seq", st("i", I(0)), l1, st("j", ld("i")), loop2, ("return", ld("j"))))
            out.append(("seq", st("i", I(0)), l1, pop(I(5)), APPROVE))
            out.append(("seq", st("i", I(0)), st("j", I(0)), l1, l1, loop2, APPROVE))
            out.append(("seq", st("i", I(0)), st("j", I(0)), ("while", lj, ("seq", st("j", inc("j")), l1, pop(I(2)))), pop(I(3)), loop2, APPROVE))
            out.append(("seq", st("i", I(0)), ("if", C1, l1, pop(I(1))), st("j", I(0)), loop2, APPROVE))
    return out


def gen_ctrl_program(rng):
    """seeded random nested control flow: 2-4 top-level items (loops, plain statements, conditionals), loops nested up to
    3 deep, Break/Continue inside one or both arms of If/Cond within loops, statements after the control transfers"""
    vars_ = ["i", "j", "k"]

    def cond():
        return rng.choice([C1, lt(ld(rng.choice(vars_)), I(rng.choice([0, 1, 3, 10]))), ("op", "%", (), "u", (ld(rng.choice(vars_)), I(2))),
                           ("op", ">", (), "u", (FEE, I(5))), I(1), I(0)])

    def plain():
        v = rng.choice(vars_)
        return rng.choice([pop(I(rng.randrange(9))), st(v, inc(v)), st(v, ld(rng.choice(vars_))), pop(ld(v)), ("assert", (cond(),))])

    def arm(d, in_loop):
        ks = ["plain", "plain", "seq"]
        if in_loop:
            ks += ["break", "continue", "break", "continue", "seq_ctl"]
        if d > 0:
            ks += ["if", "loop"]
        k = rng.choice(ks)
        if k == "plain":
            return plain()
        if k == "break" or k == "continue":
            return k
        if k == "seq":
            return ("seq",) + tuple(stmt(d - 1, in_loop) for _ in range(rng.choice([0, 1, 2])))
        if k == "seq_ctl":
            return ("seq", plain(), rng.choice(["break", "continue"]))
        if k == "if":
            return if_(d - 1, in_loop)
        return loop(d - 1)

    def if_(d, in_loop):
        if rng.random() < 0.65:
            return ("if", cond(), arm(d, in_loop), arm(d, in_loop))
        if rng.random() < 0.5:
            return ("if", cond(), arm(d, in_loop))
        return ("cond", (cond(), arm(d, in_loop)), (I(1), arm(d, in_loop)))

    def loop(d):
        n = rng.choice([1, 2, 2, 3])
        body = [stmt(d, True) for _ in range(n - 1)] + [if_(d, True) if rng.random() < 0.7 else stmt(d, True)]
        b = ("seq",) + tuple(body) if len(body) != 1 or rng.random() < 0.5 else body[0]
        if rng.random() < 0.7:
            return ("while", cond(), b)
        v = rng.choice(vars_)
        return ("for", st(v, I(0)), lt(ld(v), I(rng.choice([0, 2, 5]))), st(v, inc(v)), b)

    def stmt(d, in_loop):
        k = rng.choice(["plain", "plain", "if", "loop"] if d > 0 else ["plain"])
        if k == "plain":
            return plain()
        if k == "if":
            return if_(d - 1, in_loop)
        return loop(d - 1)
    items = []
    for _ in range(rng.choice([2, 3, 3, 4])):
        items.append(loop(rng.choice([1, 2, 3])) if rng.random() < 0.6 else stmt(2, False))
        if rng.random() < 0.5:
            items.append(plain())
    fin = rng.choice([APPROVE, ("return", ld(rng.choice(vars_))), ("exit", I(0))])
    return ("seq",) + tuple(st(v, I(0)) for v in vars_) + tuple(items) + (fin,)


def mutate_ill_typed(rng, r):
    """turn a (presumably) well-typed recipe into an ill-typed / malformed one at a random position"""
    kind = rng.choice(["pop_none", "add_bytes", "seq_value_first", "if_mismatch", "while_bytes", "break_outside", "return_bytes",
                       "assert_bytes", "not_bytes", "concat_int", "cond_mismatch", "exit_bytes"])
    bad = {
        "pop_none": pop(pop(I(1))),
        "add_bytes": pop(("nary", "+", "u", (I(1), B(b"x")))),
        "seq_value_first": ("seq", I(1), pop(I(2))),
        "if_mismatch": pop(("if", C1, I(1), B(b"x"))),
        "while_bytes": ("while", B(b"x"), pop(I(1))),
        "break_outside": "break",
        "return_bytes": ("return", B(b"x")),
        "assert_bytes": ("assert", (B(b"x"),)),
        "not_bytes": pop(("op", "!", (), "u", (B(b"x"),))),
        "concat_int": pop(("nary", "concat", "b", (B(b"x"), I(1)))),
        "cond_mismatch": pop(("cond", (C1, I(1)), (I(1), B(b"y")))),
        "exit_bytes": ("seq", pop(I(1)), ("op", "pop", (), "n", (("op", "len", (), "u", (I(1),)),))),
    }[kind]
    if isinstance(r, tuple) and r and r[0] == "seq":
        pos = rng.randrange(0, len(r))
        return kind, ("seq",) + r[1:pos + 1] + (bad,) + r[pos + 1:]
    return kind, ("seq", bad, r) if rng.random() < 0.5 else bad


def shrink_candidates(r):
    """smaller recipes obtained by dropping statements / branches"""
    if not isinstance(r, tuple) or not r:
        return
    k = r[0]
    if k == "seq":
        for i in range(1, len(r)):
            yield r[:i] + r[i + 1:]
        for i in range(1, len(r)):
            for s in shrink_candidates(r[i]):
                yield r[:i] + (s,) + r[i + 1:]
    elif k == "if":
        yield r[2]
        if len(r) > 3:
            yield r[3]
            yield r[:3]
        for i in (2, 3):
            if i < len(r):
                for s in shrink_candidates(r[i]):
                    yield r[:i] + (s,) + r[i + 1:]
    elif k in ("while", "for"):
        body_i = 2 if k == "while" else 4
        yield r[body_i]
        yield r[:body_i] + (("seq",),)
        for s in shrink_candidates(r[body_i]):
            yield r[:body_i] + (s,)
    elif k == "cond":
        for i in range(1, len(r)):
            if len(r) > 2:
                yield r[:i] + r[i + 1:]
        for i in range(1, len(r)):
            for s in shrink_candidates(r[i][1]):
                yield r[:i] + ((r[i][0], s),) + r[i + 1:]
    elif k == "op" and r[1] in ("pop", "store") and r[4]:
        yield ("op", r[1], r[2], r[3], (I(1),))


def shrink(pt, model, c, same, budget=250):
    """greedy: keep any smaller recipe on which `same(case)` still holds"""
    best = c
    improved = True
    while improved and budget > 0:
        improved = False
        for cand in shrink_candidates(best.recipe):
            budget -= 1
            if budget <= 0:
                break
            c2 = C20Case(cand, best.version, best.app, best.ss, best.fp, best.subs, assemble=best.assemble, reserved=best.reserved)
            run_case(pt, model, c2, ask_model=False, timeout=10)
            if c2.realx is not None and same(c2):
                best = c2
                improved = True
                break
    return best


def recipe_nodes(r):
    if not isinstance(r, tuple):
        return 1
    return 1 + sum(recipe_nodes(x) for x in r if isinstance(x, tuple))


def uses_unmodelled(r):
    return False


# ---------------------------------------------------------------------------------------------
# worker pool
# ---------------------------------------------------------------------------------------------
def run_worker_jobs(groups, wall=170):
    """groups: list of job lists; one worker interpreter per group, all in parallel; a worker that exits early is
    restarted on its remaining jobs (once per job).  -> list of result dicts (job without answer => outcome worker-died)"""
    env = dict(os.environ)
    env.update({"PYTHONPATH": REPO, "PYTEAL_REPO": REPO, "PYTHONHASHSEED": "0", "PYTHONDONTWRITEBYTECODE": "1"})
    t_end = time.time() + wall
    results = []
    pending = [list(g) for g in groups if g]
    retried = set()
    while pending:
        procs = []
        for g in pending:
            p = subprocess.Popen([PY, WORKER], stdin=subprocess.PIPE, stdout=subprocess.PIPE, stderr=subprocess.PIPE, text=True, env=env)
            procs.append((p, g))
        nxt = []
        for p, g in procs:
            killed = False
            try:
                out, err = p.communicate("\n".join(json.dumps(j) for j in g) + "\n", timeout=max(5, t_end - time.time()))
            except subprocess.TimeoutExpired:
                p.kill()
                killed = True
                out, err = p.communicate()
            got = [json.loads(l) for l in out.splitlines() if l.startswith("{")]
            results += got
            rest = g[len(got):]
            if rest and killed:
                for j in rest:
                    results.append({"outcome": "not-run", "job": {x: j[x] for x in j if x != "recipe"}})
            elif rest:
                k = json.dumps(rest[0], sort_keys=True)
                must_exit = bool(got and (got[-1].get("deep") or {}).get("worker_must_exit"))
                if not must_exit:
                    if k in retried or time.time() > t_end:
                        results.append({"outcome": "worker-died", "job": {x: rest[0][x] for x in rest[0] if x != "recipe"},
                                        "rc": p.returncode, "stderr": (err or "")[-400:]})
                        rest = rest[1:]
                    else:
                        retried.add(k)
                if rest and time.time() < t_end:
                    nxt.append(rest)
                else:
                    for j in rest:
                        results.append({"outcome": "not-run", "job": {x: j[x] for x in j if x != "recipe"}})
        pending = nxt
    return results


def recursion_class(r):
    """class predicate of the finding `long-program-recursion` on a worker result:
    RecursionError at the default limit, the same program is processed normally (TEAL or a PyTeal error) on a deep stack,
    and the deep run needed at least `recursion_limit` nested Python calls — the walk is finite, its depth grows with the
    program, and the default interpreter stack is the only obstacle."""
    d = r.get("deep") or {}
    return (r.get("outcome") == "crash" and r.get("exc") == "RecursionError" and d.get("outcome") in ("teal", "pyteal")
            and d.get("peak_depth", 0) >= r.get("recursion_limit", 1000))


# ---------------------------------------------------------------------------------------------
# the check
# ---------------------------------------------------------------------------------------------
class Run:
    def __init__(self, ck, pt, model):
        self.ck, self.pt, self.model = ck, pt, model
        self.outcomes = {}
        self.mismatch = []          # outcome-class disagreements model vs real
        self.text_mismatch = 0
        self.crashes = []           # (case, where)
        self.accept_fail = []       # well-typed + model ok, real rejects
        self.wt_fail = []           # Coq says well-typed, constructors refuse
        self.depth_checked = 0
        self.depth_mismatch = []
        self.straight_checked = 0
        self.pending_recursion = [] # in-process RecursionErrors to diagnose in a worker
        self.wt_cache = {}
        self.hist = {}
        self.recount = True

    def note(self, k, n=1):
        self.outcomes[k] = self.outcomes.get(k, 0) + n

    def wt(self, c):
        """Coq well-typedness of the main recipe (None when the recipe is outside the predicate's language)"""
        if c.subs or c.builder is None:
            return None
        try:
            w = c.builder.wire(c.recipe)
        except Exception:
            return None
        if "(multi " in w or "(call " in w:
            return None
        if w not in self.wt_cache:
            r = self.model.ask("(welltyped %s)" % w)
            self.wt_cache[w] = (r[1] == S("true")) if isinstance(r, list) and r and r[0] == S("wt") else None
        return self.wt_cache[w]

    def note_if(self, k):
        if self.recount:
            self.note(k)

    def consider(self, c, origin, well_formed=True, recount=True):
        """classify one compiled case"""
        ck = self.ck
        c.origin, c.well_formed = origin, well_formed
        self.recount = recount
        if recount:
            ck.count(c.key(), nontrivial=(c.realx is not None and c.realx["outcome"] == "ok"))
        if c.build["outcome"] != "ok":
            o = c.build["outcome"]
            self.note_if("construction:" + (c.build.get("exc") or o))
            if o == "crash":
                self.crashes.append((c, "construction", origin))
            elif o == "timeout":
                self.crashes.append((c, "construction-timeout", origin))
            elif o == "pyteal" and well_formed and self.wt_by_recipe(c) is True:
                self.wt_fail.append(c)
            return
        rc, mc = real_class(c), model_class(c)
        self.note_if("real:" + rc)
        if mc == "unsupported":
            self.note_if("model-unsupported")
        wt = self.wt(c) if well_formed else None
        if wt:
            self.note_if("coq-well-typed")
        if c.realx["outcome"] == "timeout":
            self.crashes.append((c, "timeout", origin))
            return
        if c.realx["outcome"] == "crash":
            if rc == "RecursionError":
                self.pending_recursion.append((c, origin))
            else:
                self.crashes.append((c, "compile", origin))
            return
        # TEAL or PyTeal error
        if c.assemble:
            # no model of the constant blocks here: assembleConstants must not change the outcome class (below version 3 an
            # otherwise accepted program is refused with the documented TealInternalError)
            base = run_case(self.pt, self.model, C20Case(c.recipe, c.version, c.app, c.ss, c.fp, c.subs, reserved=c.reserved), ask_model=False)
            if base.realx is not None and base.realx["outcome"] in ("ok", "pyteal"):
                want = real_class(base)
                if want == "ok" and c.version < 3:
                    want = "TealInternalError"
                if rc != want:
                    c.model = [S("expected-from-compile-without-assembleConstants"), want]
                    self.mismatch.append(c)
                    if want == "ok":
                        self.accept_fail.append(c)
            return
        if mc not in ("unsupported", "?"):
            if rc != mc:
                self.mismatch.append(c)
                if rc in PYTEAL_ERROR_NAMES and mc == "ok" and wt:
                    self.accept_fail.append(c)
            elif rc == "ok" and same_outcome(c) is False:
                self.text_mismatch += 1
        if c.ai_peak is not None and rc == "ok" and not c.subs and c.shape is not None:
            sh = c.shape
            if isinstance(sh, list) and sh and sh[0] == S("shape"):
                d = dict((repr(x[0]), x[1]) for x in sh[1:])
                self.depth_checked += 1 if recount else 0
                if c.ai_peak != d["depth"] + 1:
                    self.depth_mismatch.append((c, c.ai_peak, d["depth"]))
                if d["straight"] == S("true") and d["has-return"] == S("true"):
                    # the fragment of accepts_well_typed_partial / walk_depth_is_program_length
                    self.straight_checked += 1 if recount else 0
                    if d["depth"] != d["blocks"] - 1 or mc != "ok":
                        self.depth_mismatch.append((c, "theorem instance", d))

    def wt_by_recipe(self, c):
        try:
            b = Builder(self.pt)
            # symbolic slots need objects for the wire form; build may fail, then the recipe is outside the language
            b.build(c.recipe)
            w = b.wire(c.recipe)
            r = self.model.ask("(welltyped %s)" % w)
            return r[1] == S("true")
        except Exception:
            return None


# ---------------------------------------------------------------------------------------------
# streams (each case is a function of (VERIF_SEED, stream name, index): independent of the sharding)
# ---------------------------------------------------------------------------------------------
OPTMATRIX = [(None, None), (True, None), (False, None), (None, False), (True, True), (False, False), (None, True), (True, False)]


def rng_of(stream, i):
    import random
    h = hashlib.sha1(("%d/%s/%d" % (seed(), stream, i)).encode()).digest()
    return random.Random(int.from_bytes(h[:8], "big"))


def all_shapes():
    shapes = small_recipes() + c20_shapes() + directed_ctrl_shapes()
    seen = set()
    return [s for s in shapes if not (repr(s) in seen or seen.add(repr(s)))]


def stream_small(run, thorough, k, n):
    pt, model = run.pt, run.model
    versions = list(range(2, 11))
    if k == 0:      # corpus of earlier minimised failures (repaired in /repo): must compile, model must agree
        for r in (W_LOOP_FIRST, W_LOOP_CONTINUE, W_IF_EMPTY_THEN_LOOP, W_OPT):
            for v in versions:
                for ssv in (None, True):
                    run.consider(run_case(pt, model, C20Case(r, v, True, ssv, None), measure=True), "corpus")
    for si, r in enumerate(all_shapes()):
        if si % n != k:
            continue
        if thorough:
            configs = [(v, app, ssv, fpv) for v in versions for app in (True, False) for (ssv, fpv) in OPTMATRIX]
        else:
            # every shape at four versions (application mode, default options), one signature-mode version and
            # two rotating version/option settings
            configs = [(v, True, None, None) for v in (2, 6, 9, 10)] + [((3, 8)[si % 2], False, None, None)]
            configs += [((4, 5, 7, 8, 9, 10)[(si + j) % 6], True) + OPTMATRIX[1 + (si + 3 * j) % 7] for j in range(2)]
        for v, app, ssv, fpv in configs:
            run.consider(run_case(pt, model, C20Case(r, v, app, ssv, fpv), measure=(ssv is None and fpv is None)), "small")


def stream_ctrl(run, thorough, k, n):
    """nested control flow with Break/Continue in If arms, sequences of loops"""
    pt, model = run.pt, run.model
    for i in range(4000 if thorough else 450):
        if i % n != k:
            continue
        rng = rng_of("ctrl", i)
        r = gen_ctrl_program(rng)
        version, app, ssv, fpv = random_case_params(rng)
        run.consider(run_case(pt, model, C20Case(r, version, app, ssv, fpv), measure=(i % 3 == 0)), "ctrl")
        if i % 2 == 0:
            run.consider(run_case(pt, model, C20Case(r, version, app, ssv, fpv, assemble=True)), "ctrl+assembleConstants")


def stream_random(run, thorough, k, n):
    pt, model, ck = run.pt, run.model, run.ck
    for i in range(6000 if thorough else 700):
        if i % n != k:
            continue
        rng = rng_of("random", i)
        version, app, ssv, fpv = random_case_params(rng)
        g = Gen(rng, version, app, size=rng.choice([5, 10, 20, 40, 60, 90]), allow_new_ops=0.03)
        r = g.program(depth=rng.choice([1, 2, 3, 4, 5]))
        init = tuple(st(kk, (I(0) if t == "u" else B(b""))) for kk, t in g.vars.items())
        if init and rng.random() < 0.9:
            r = ("seq",) + init + (r,)
        for kk, vv in g.hist.items():
            run.hist[kk] = run.hist.get(kk, 0) + vv
        c = run_case(pt, model, C20Case(r, version, app, ssv, fpv), measure=(i % 4 == 0))
        run.consider(c, "random")
        if i % 2 == 1:
            run.consider(run_case(pt, model, C20Case(r, version, app, ssv, fpv, assemble=True)), "random+assembleConstants")
        if c.realx is not None and c.realx["outcome"] == "ok":
            ck.sample({"recipe": repr(r)[:300], "version": version, "mode": "app" if app else "sig", "teal_lines": len(c.realx["value"].split("\n"))}, limit=3)
        # the same program, made ill-typed / malformed at one position: must be refused with a PyTeal error
        if i % 3 == 0:
            kind, bad = mutate_ill_typed(rng, r)
            cb = run_case(pt, model, C20Case(bad, version, app, ssv, fpv))
            run.consider(cb, "ill-typed:" + kind, well_formed=False)
            refused = cb.build["outcome"] == "pyteal" or (cb.realx is not None and cb.realx["outcome"] == "pyteal")
            run.note("ill-typed refused with a PyTeal error" if refused else "ill-typed:" + kind + ":" + (cb.build["outcome"] if cb.realx is None else real_class(cb)))


def stream_subs(run, thorough, k, n):
    """programs with subroutines (recursion, by-reference parameters, odd names)"""
    pt, model = run.pt, run.model
    for i in range(1500 if thorough else 160):
        if i % n != k:
            continue
        rng = rng_of("subs", i)
        version = rng.choice([4, 5, 6, 7, 8, 8, 9, 10])
        app = rng.random() < 0.8
        ssv = rng.choice([None, None, True, False])
        fpv = rng.choice([None, None, False, True]) if version >= 8 else rng.choice([None, False])
        try:
            prepare, main_r, desc = gen_sub_program(rng, version, app)
        except Exception:  # generator limitation, not the implementation
            run.note("subgen-skip")
            continue
        b0 = Builder(pt)
        rb = call_real(prepare, b0)
        if rb[0] != "ok":
            run.note("sub-definition:" + rb[1])
            if rb[1] not in PYTEAL_ERROR_NAMES:
                c = C20Case(main_r, version, app, ssv, fpv)
                c.build = {"outcome": "crash", "exc": rb[1], "msg": rb[2]}
                run.crashes.append((c, "sub-definition", "subs"))
            continue
        subs = [(kk, s_["name"], s_["ret"], s_["kinds"], s_["body"]) for kk, s_ in b0.subs.items()]
        run.consider(run_case(pt, model, C20Case(main_r, version, app, ssv, fpv, subs)), "subs")


SLOT_MIXTURES = [(246, 10), (255, 1), (0, 129), (128, 128), (200, 56), (0, 256), (1, 255), (100, 3),        # within the 256-slot limit
                 (247, 10), (256, 1), (129, 128), (201, 56), (257, 0)]                                       # one slot too many


def slot_mixture_case(k_auto, r_res, layout, version, in_sub, dup=False):
    """k automatic variables and r variables with requested ids, each stored once (2 blocks per store: below the recursion limit);
    layout: requested ids from 0 up, from 255 down, or every other id; in_sub: half of the stores live in a subroutine"""
    if layout == "low":
        ids = list(range(r_res))
    elif layout == "high":
        ids = [255 - j for j in range(r_res)]
    else:
        ids = [(2 * j) % 256 + (1 if 2 * j >= 256 else 0) for j in range(r_res)]
    if dup and len(ids) >= 2:
        ids[1] = ids[0]
    reserved = {"r%d" % j: ids[j] for j in range(r_res)}
    keys = ["a%d" % j for j in range(k_auto)] + list(reserved)
    # interleave so that reserved and automatic slots alternate in first-use order
    keys = keys[::2] + keys[1::2]
    stores = [st(kk, I(n_)) for n_, kk in enumerate(keys)]
    if in_sub:
        half = len(stores) // 2
        subs = [("h", "helper", "n", "", ("seq",) + tuple(stores[half:]))]
        main = ("seq",) + tuple(stores[:half]) + (("call", "h", ()), APPROVE)
        return C20Case(main, version, True, None, None, subs, reserved=reserved)
    return C20Case(("seq",) + tuple(stores) + (APPROVE,), version, True, None, None, reserved=reserved)


def stream_slots(run, thorough, k, n):
    """the 256-slot limit with mixtures of automatic and requested slot ids, against the model's verdict"""
    pt, model = run.pt, run.model
    idx = 0
    for (ka, rr) in SLOT_MIXTURES:
        for layout in (("low", "high", "spread") if thorough else ("low", "spread")):
            for version, in_sub in (((6, False), (9, False), (6, True), (9, True), (4, True), (3, False)) if thorough else ((6, False), (9, True))):
                idx += 1
                if idx % n != k:
                    continue
                run.consider(run_case(pt, model, slot_mixture_case(ka, rr, layout, version, in_sub), timeout=60), "slots")
    if k == 0:
        run.consider(run_case(pt, model, slot_mixture_case(10, 4, "low", 6, False, dup=True)), "slots")
        run.consider(run_case(pt, model, slot_mixture_case(10, 4, "high", 9, True, dup=True)), "slots")


STREAMS = [("slots", stream_slots), ("small", stream_small), ("ctrl", stream_ctrl), ("random", stream_random), ("subs", stream_subs)]


def case_ref(c, origin, well_formed=True, where=None):
    return {"recipe": repr(c.recipe), "version": c.version, "app": c.app, "ss": c.ss, "fp": c.fp,
            "subs": [[kk, nm, r_, kd, repr(bd)] for (kk, nm, r_, kd, bd) in c.subs], "origin": origin, "well_formed": well_formed, "where": where,
            "assemble": c.assemble, "reserved": [[repr(kk), vv] for kk, vv in c.reserved.items()],
            "build": ({kk: vv for kk, vv in c.build.items() if kk != "value"} if (c.build and c.build.get("outcome") != "ok") else None)}


def shard_main(k, n, tier):
    """one slice of every stream in its own process; prints one JSON line"""
    import pyteal as pt
    ck = Check("C20", tier)
    model = Model("c20")
    run = Run(ck, pt, model)
    run.remember = []            # (case, origin, well_formed) of everything consider() flagged
    timings = {}
    for name, fn in STREAMS:
        t0 = time.time()
        fn(run, tier == "thorough", k, n)
        timings[name] = round(time.time() - t0, 1)
    flagged = {}
    for lst, cat in ((run.crashes, "crash"), (run.pending_recursion, "recursion")):
        for t in lst:
            c = t[0]
            flagged.setdefault(json.dumps(case_ref(c, t[-1], where=(t[1] if len(t) == 3 else None)), sort_keys=True), cat)
    for lst, cat in ((run.mismatch, "mismatch"), (run.accept_fail, "accept"), (run.wt_fail, "wt")):
        for c in lst:
            flagged.setdefault(json.dumps(case_ref(c, getattr(c, "origin", "?"), getattr(c, "well_formed", True)), sort_keys=True), cat)
    for t in run.depth_mismatch:
        c = t[0]
        flagged.setdefault(json.dumps(case_ref(c, getattr(c, "origin", "?")), sort_keys=True), "depth")
    out = {"shard": k, "outcomes": run.outcomes, "hist": run.hist, "evaluations": ck.evaluations, "distinct": sorted(ck.distinct),
           "samples": ck.samples, "depth_checked": run.depth_checked, "straight_checked": run.straight_checked,
           "text_mismatch": run.text_mismatch, "flagged": [[json.loads(kk), cat] for kk, cat in flagged.items()][:400],
           "flagged_total": len(flagged), "timings": timings, "cpu_s": round(time.process_time(), 1)}
    model.close()
    sys.stdout.write("SHARD " + json.dumps(out, default=repr) + "\n")
    sys.stdout.flush()
    return 0


def start_shards(n, tier):
    env = dict(os.environ)
    procs = []
    for k in range(n):
        procs.append(subprocess.Popen([PY, os.path.abspath(__file__), "--shard", str(k), str(n), "--tier", tier],
                                      stdout=subprocess.PIPE, stderr=subprocess.PIPE, text=True, env=env))
    return procs


def merge_shards(run, procs, n, thorough):
    ck, pt, model = run.ck, run.pt, run.model
    flagged, totals, shard_t = [], 0, []
    for k, p in enumerate(procs):
        try:
            out, err = p.communicate(timeout=(3000 if thorough else 900))
        except subprocess.TimeoutExpired:
            p.kill()
            out, err = p.communicate()
        line = next((l for l in out.splitlines() if l.startswith("SHARD ")), None)
        if line is None:
            # the shard did not answer (an exception of the implementation escaped it, or it was killed): its slice is run here
            ck.notes.append("shard %d gave no answer (rc=%s): %s; its slice was run in the main process" % (k, p.returncode, (err or out or "")[-300:].replace("\n", " | ")))
            for name, fn in STREAMS:
                fn(run, thorough, k, n)
            continue
        d = json.loads(line[6:])
        for kk, vv in d["outcomes"].items():
            run.note(kk, vv)
        for kk, vv in d["hist"].items():
            run.hist[kk] = run.hist.get(kk, 0) + vv
        ck.evaluations += d["evaluations"]
        ck.distinct.update(d["distinct"])
        for smp in d["samples"]:
            ck.sample(smp, limit=5)
        run.depth_checked += d["depth_checked"]
        run.straight_checked += d["straight_checked"]
        run.text_mismatch += d["text_mismatch"]
        flagged += d["flagged"]
        totals += d["flagged_total"]
        shard_t.append((d["timings"], d["cpu_s"]))
    ck.coverage["shards"] = {"count": n, "per_shard_stream_wall_s": [t for t, _ in shard_t], "cpu_s": [c_ for _, c_ in shard_t], "cases_flagged_by_shards": totals}
    # every flagged case is re-run and judged in this process (cap per category; the rest is counted)
    per_cat = {}
    for ref, cat in flagged:
        per_cat.setdefault(cat, []).append(ref)
    rerun = 0
    for cat, refs in per_cat.items():
        refs.sort(key=lambda r_: len(r_["recipe"]))
        for ref in refs[:(40 if not thorough else 80)]:
            subs = [(kk, nm, r_, kd, eval(bd)) for (kk, nm, r_, kd, bd) in ref["subs"]]
            c = C20Case(eval(ref["recipe"]), ref["version"], ref["app"], ref["ss"], ref["fp"], subs, assemble=ref.get("assemble", False),
                        reserved={eval(kk): vv for kk, vv in ref.get("reserved", [])})
            if ref.get("where") == "sub-definition":
                c.build = ref["build"]
                run.crashes.append((c, "sub-definition", ref["origin"]))
                continue
            run.consider(run_case(pt, model, c, measure=True), ref["origin"], well_formed=ref["well_formed"], recount=False)
            rerun += 1
    ck.coverage["shards"]["flagged_cases_rejudged_here"] = rerun
    ck.coverage["shards"]["flagged_by_category"] = {cat: len(v) for cat, v in per_cat.items()}


def pv_is_current(name):
    """is ocaml/pv_<name> built from the present Coq sources? (same digest as common.build_pvmodel)"""
    h = hashlib.sha256()
    for root, _, files in sorted(os.walk(COQ)):
        for f in sorted(files):
            if f.endswith(".v"):
                h.update(open(os.path.join(root, f), "rb").read())
    h.update(open(os.path.join(OCAML, "driver.ml"), "rb").read())
    h.update(open(os.path.join(OCAML, "build.sh"), "rb").read())
    stamp = os.path.join(OCAML, "_build", name + ".stamp")
    return os.path.exists(os.path.join(OCAML, "pv_" + name)) and os.path.exists(stamp) and open(stamp).read() == h.hexdigest()


# ---------------------------------------------------------------------------------------------
# constant-dense programs with template constants (Tmpl is outside the recipe language: built directly from a JSON spec)
# ---------------------------------------------------------------------------------------------
VALID_ADDRS = ["AAAAAAAAAAAAAAAAAAAAAAAAAAAAAAAAAAAAAAAAAAAAAAAAAAAAY5HFKQ", "AAAQEAYEAUDAOCAJBIFQYDIOB4IBCEQTCQKRMFYYDENBWHA5DYP7MUPJQE"]


def has_undecodable_addr(spec):
    """an Addr literal with a wrong checksum: accepted by Addr() (C13's open finding), refused by constant assembly with TealInputError"""
    return any(c_[0] == "addr" and c_[1] not in VALID_ADDRS for _, c_ in spec)


def basen_specs():
    """Bytes("base32" | "base64" | "base16", ...) literals of every length 0..12 bytes (every padding tail), with and without padding
    characters / 0x prefix, each used once and twice, alone and next to other repeated constants"""
    import base64
    out = []
    for n_ in range(13):
        raw = bytes((97 + j) % 256 for j in range(n_))
        b32 = base64.b32encode(raw).decode()
        forms = [["b32", b32], ["b32", b32.rstrip("=")], ["b64", base64.b64encode(raw).decode()], ["b16", raw.hex()], ["b16", "0x" + raw.hex()]]
        for f in forms:
            for uses in (1, 2):
                out.append([["pop", f]] * uses)
                out.append([["pop", ["int", 1000]], ["pop", ["int", 1000]]] + [["pop", f]] * uses + [["cmp", ["bytes", "ff"]], ["pop", ["bytes", "ff"]]])
    return out


def gen_const_spec(rng, version=6):
    """5-10 distinct integers and 3-8 distinct byte strings, each used 1-6 times, small (< 128) and large values mixed, with
    template integers / byte strings / addresses among them, in shuffled order (frequency ranks and first-seen order vary)"""
    ints = rng.sample([0, 1, 2, 3, 5, 7, 100, 127, 128, 129, 255, 256, 1000, 1001, 1002, 1003, 65536, (1 << 32) + 1, (1 << 63), (1 << 64) - 1], rng.randrange(5, 11))
    consts = [["int", v] for v in ints]
    for j in range(rng.choice([0, 1, 1, 2, 3])):
        consts.append(["tint", "TMPL_I%d" % j])
    bs = rng.sample(["", "00", "01", "ff", "deadbeef", "00" * 32, "ab" * 8, "0102030405", "7f", "80", "aa" * 33, "6869"], rng.randrange(3, 9))
    consts += [["bytes", h] for h in bs]
    for j in range(rng.choice([0, 1, 1, 2])):
        consts.append(["tbytes", "TMPL_B%d" % j])
    import base64
    for j in range(rng.choice([0, 1, 2])):
        raw = bytes(rng.randrange(256) for _ in range(rng.randrange(0, 13)))
        enc = rng.choice(["b32", "b32nopad", "b64"])
        consts.append(["b32", base64.b32encode(raw).decode()] if enc == "b32" else
                      ["b32", base64.b32encode(raw).decode().rstrip("=")] if enc == "b32nopad" else ["b64", base64.b64encode(raw).decode()])
    if rng.random() < 0.5:
        consts.append(["taddr", "TMPL_ADDR"])
    if rng.random() < 0.45:
        consts.append(["addr", rng.choice(VALID_ADDRS)])
    if rng.random() < 0.08:
        consts.append(["addr", "A" * 58])         # well-formed length and alphabet, wrong checksum (accepted by Addr(): finding of C13)
    if rng.random() < 0.3:
        consts.append(["enum", rng.choice(["NoOp", "OptIn", "DeleteApplication"])])
    uses = []
    for c_ in consts:
        uses += [c_] * rng.choice([1, 1, 2, 2, 3, 4, 6])
    rng.shuffle(uses)
    # a few uses sit inside expressions / branches instead of a bare Pop
    spec = []
    for u in uses:
        spec.append([rng.choice(["pop", "pop", "pop", "cmp", "if", "sub"] if version >= 4 else ["pop", "pop", "pop", "cmp", "if"]), u])
    return spec


def build_const_spec(pt, spec):
    Int, Bytes, Pop, Seq, If = pt.Int, pt.Bytes, pt.Pop, pt.Seq, pt.If
    box = {}

    def const(c_):
        k_, v_ = c_
        if k_ == "int":
            return Int(v_), "u"
        if k_ == "tint":
            return pt.Tmpl.Int(v_), "u"
        if k_ == "bytes":
            return Bytes("base16", v_), "b"
        if k_ in ("b16", "b32", "b64"):
            return Bytes({"b16": "base16", "b32": "base32", "b64": "base64"}[k_], v_), "b"
        if k_ == "tbytes":
            return pt.Tmpl.Bytes(v_), "b"
        if k_ == "taddr":
            return pt.Tmpl.Addr(v_), "b"
        if k_ == "addr":
            return pt.Addr(v_), "b"
        return getattr(pt.OnComplete, v_), "u"

    def helper():
        if "f" not in box:
            @pt.Subroutine(pt.TealType.none, name="drop")
            def drop(x):
                return Pop(x)
            box["f"] = drop
        return box["f"]
    stmts = []
    for how, c_ in spec:
        e, t = const(c_)
        if how == "pop":
            stmts.append(Pop(e))
        elif how == "cmp":
            e2, _ = const(c_)
            stmts.append(Pop(e == e2) if t == "u" else Pop(pt.Len(e)))
        elif how == "if":
            stmts.append(If(pt.Txn.fee() > Int(7), Pop(e), Pop(Int(7))))
        else:
            stmts.append(helper()(e) if t == "u" else Pop(e))
    return Seq(*stmts, pt.Approve())


def spec_uses_sub(spec):
    return any(how == "sub" and c_[0] in ("int", "tint", "enum") for how, c_ in spec)


def compile_const_spec(pt, spec, version, app, assemble, api):
    def go():
        e = build_const_spec(pt, spec)
        mode = pt.Mode.Application if app else pt.Mode.Signature
        if api == "Compilation":
            return pt.Compilation(e, mode, version=version, assemble_constants=assemble).compile().teal
        return pt.compileTeal(e, mode, version=version, assembleConstants=assemble)
    return real_call(pt, go)


def stream_consts(run, thorough):
    """real compiler only: assembleConstants / Compilation(assemble_constants=True) must not crash and must not change the outcome class"""
    pt, ck = run.pt, run.ck
    stats, bad = {}, {}
    directed = basen_specs()
    if not thorough:
        directed = directed[0::2] + directed[1::4]      # quick: every bare form, every other mixed form
    nrand = 3000 if thorough else 320
    for i in range(len(directed) + nrand):
        rng = rng_of("consts", i)
        if i < len(directed):
            spec, version, app = directed[i], (3, 6, 10, 4, 9)[i % 5], (i % 3 != 0)
        else:
            version = rng.choice([2, 3, 3, 4, 5, 6, 7, 8, 9, 10])
            spec = gen_const_spec(rng, version)
            app = rng.random() < 0.6
        base = compile_const_spec(pt, spec, version, app, False, "compileTeal")
        for api in (("compileTeal", "Compilation") if i % 2 == 0 else ("compileTeal",)):
            x = compile_const_spec(pt, spec, version, app, True, api)
            ck.count(("consts", i, api), nontrivial=(x["outcome"] == "ok"))
            cls = "ok" if x["outcome"] == "ok" else x.get("exc", x["outcome"])
            want = "ok" if base["outcome"] == "ok" else base.get("exc", base["outcome"])
            if want == "ok" and version < 3:
                want = "TealInternalError"
            elif want == "ok" and has_undecodable_addr(spec):
                want = "TealInputError"          # documented rejection since 104f066: the address cannot be decoded into a constant
            stats[api + ":" + cls] = stats.get(api + ":" + cls, 0) + 1
            if x["outcome"] in ("crash", "timeout") or base["outcome"] in ("crash", "timeout") or cls != want:
                kind = "crash" if x["outcome"] in ("crash", "timeout") or base["outcome"] in ("crash", "timeout") else "acceptance"
                bad.setdefault((kind, cls, want), []).append((spec, version, app, api, x, base))
    for (kind, cls, want), lst in list(bad.items())[:4]:
        spec, version, app, api, x, base = min(lst, key=lambda t: len(t[0]))

        def still(sp):
            y = compile_const_spec(pt, sp, version, app, True, api)
            c2 = "ok" if y["outcome"] == "ok" else y.get("exc", y["outcome"])
            if kind == "crash":
                return c2 == cls
            b2 = compile_const_spec(pt, sp, version, app, False, "compileTeal")
            return b2["outcome"] == base["outcome"] and b2.get("exc") == base.get("exc") and c2 == cls
        small, improved, budget = list(spec), True, 400
        while improved and budget > 0:
            improved = False
            for j in range(len(small)):
                budget -= 1
                cand = small[:j] + small[j + 1:]
                if cand and still(cand):
                    small, improved = cand, True
                    break
        what = ("%s: %s(assembleConstants=True) raised a non-PyTeal exception on a constant-dense program with template constants" % (cls, api)) if kind == "crash" else \
               ("%s(assembleConstants=True) ends in %s where the same program without constant assembly ends in %s" % (api, cls, want))
        ck.violation(what + " (%d programs of this class; shrunk from %d to %d constant uses)" % (len(lst), len(spec), len(small)),
                     {"kind": kind, "const_spec": small, "version": version, "mode": "app" if app else "sig", "api": api,
                      "result": {k_: v_ for k_, v_ in x.items() if k_ != "value"}, "python": "harness/c20.py build_const_spec(pt, const_spec)"})
    return stats


# ---------------------------------------------------------------------------------------------
# subroutines whose positional parameter names collide with names PyTeal uses internally
# ---------------------------------------------------------------------------------------------
ODD_PARAM_NAMES = ["output", "self", "args", "kwargs", "options", "ret", "_", "cls", "expr", "subroutine", "fn", "name", "return_type", "abi"]


def param_case_specs(thorough):
    out = []
    kinds_sets = [["expr"], ["expr", "expr"], ["plain", "expr"], ["expr", "ref"], ["abi", "expr"], ["expr", "plain", "expr"]]
    for nm in ODD_PARAM_NAMES:
        for ks in kinds_sets:
            for pos in ("first", "last"):
                for deco, ret in (("Subroutine", "u"), ("Subroutine", "n"), ("ABIReturnSubroutine", "u")):
                    if deco == "ABIReturnSubroutine" and nm == "output":
                        continue        # there the keyword-only result parameter really is `output`
                    names = ["p%d" % j for j in range(len(ks))]
                    names[0 if pos == "first" else -1] = nm
                    out.append({"decorator": deco, "ret": ret, "params": [[n_, k_] for n_, k_ in zip(names, ks)]})
    if not thorough:
        out = [c_ for j, c_ in enumerate(out) if c_["params"][0][0] == "output" or c_["params"][-1][0] == "output" or j % 3 == 0]
    return out


def build_param_case(pt, spec, neutral=False):
    """-> main expression; neutral=True renames every parameter to q0, q1, ... (the reference: names are not part of the program)"""
    params = [[("q%d" % j) if neutral else n_, k_] for j, (n_, k_) in enumerate(spec["params"])]
    ann = {"expr": ": Expr", "plain": "", "ref": ": ScratchVar", "abi": ": abi.Uint64"}
    read = {"expr": "%s", "plain": "%s", "ref": "%s.load()", "abi": "%s.get()"}
    total = " + ".join([read[k_] % n_ for n_, k_ in params] + ["Int(1)"])
    sig = ", ".join(n_ + ann[k_] for n_, k_ in params)
    if spec["decorator"] == "ABIReturnSubroutine":
        res = "res_" if any(n_ == "output" for n_, _ in params) else "output"
        src = "def callee(%s, *, %s: abi.Uint64):\n    return %s.set(%s)\n" % (sig, res, res, total)
    elif spec["ret"] == "u":
        src = "def callee(%s):\n    return %s\n" % (sig, total)
    else:
        src = "def callee(%s):\n    return Pop(%s)\n" % (sig, total)
    ns = {"Expr": pt.Expr, "ScratchVar": pt.ScratchVar, "abi": pt.abi, "Int": pt.Int, "Pop": pt.Pop}
    exec(src, ns)
    if spec["decorator"] == "ABIReturnSubroutine":
        f = pt.ABIReturnSubroutine(ns["callee"])
    else:
        f = pt.Subroutine(pt.TealType.uint64 if spec["ret"] == "u" else pt.TealType.none)(ns["callee"])
    pre, args = [], []
    for j, (n_, k_) in enumerate(params):
        if k_ in ("expr", "plain"):
            args.append(pt.Int(j + 2))
        elif k_ == "ref":
            v = pt.ScratchVar(pt.TealType.uint64)
            pre.append(v.store(pt.Int(j + 2)))
            args.append(v)
        else:
            a = pt.abi.Uint64()
            pre.append(a.set(pt.Int(j + 2)))
            args.append(a)
    if spec["decorator"] == "ABIReturnSubroutine":
        r = pt.abi.Uint64()
        return pt.Seq(*pre, f(*args).store_into(r), pt.Return(r.get()))
    if spec["ret"] == "u":
        return pt.Seq(*pre, pt.Return(f(*args)))
    return pt.Seq(*pre, f(*args), pt.Approve())


def compile_param_case(pt, spec, version, fp, neutral):
    return real_call(pt, lambda: pt.compileTeal(build_param_case(pt, spec, neutral), pt.Mode.Application, version=version,
                                                optimize=(None if fp is None else pt.OptimizeOptions(frame_pointers=fp))))


def stream_param_names(run, thorough):
    """a parameter's NAME is not part of the program: the outcome (class and TEAL text) must equal that of the same subroutine
    with neutral parameter names"""
    pt, ck = run.pt, run.ck
    stats, bad = {}, {}
    for j, spec in enumerate(param_case_specs(thorough)):
        for version, fp in (((5, None), (6, None), (7, None), (8, None), (8, False), (9, None), (10, None), (10, False)) if thorough
                            else (((5, 8, 10)[j % 3], None), ((6, 9)[j % 2], None), ((8, 10)[j % 2], False))):
            x = compile_param_case(pt, spec, version, fp, False)
            ref = compile_param_case(pt, spec, version, fp, True)
            cls = lambda y: "ok" if y["outcome"] == "ok" else y.get("exc", y["outcome"])
            ck.count(("param-names", json.dumps(spec, sort_keys=True), version, fp), nontrivial=(x["outcome"] == "ok"))
            stats[cls(x)] = stats.get(cls(x), 0) + 1
            if x["outcome"] in ("crash", "timeout"):
                bad.setdefault(("crash", cls(x)), []).append((spec, version, fp, x, ref))
            elif cls(x) != cls(ref):
                bad.setdefault(("acceptance" if ref["outcome"] == "ok" else "history", cls(x), cls(ref)), []).append((spec, version, fp, x, ref))
            elif x["outcome"] == "ok" and x["value"] != ref["value"]:
                stats["text differs from neutral names"] = stats.get("text differs from neutral names", 0) + 1
                bad.setdefault(("text",), []).append((spec, version, fp, x, ref))
    for key, lst in list(bad.items())[:3]:
        spec, version, fp, x, ref = min(lst, key=lambda t: len(t[0]["params"]))
        if key[0] == "crash":
            what = "%s: a non-PyTeal exception for a subroutine with a parameter named %r" % (key[1], [n_ for n_, _ in spec["params"]])
        elif key[0] == "text":
            what = "the TEAL of a subroutine changes with the NAME of its parameters %r" % ([n_ for n_, _ in spec["params"]],)
        else:
            what = "a valid call of a %s with parameters %r ends in %s (%s); with neutral parameter names the same program ends in %s" % (
                spec["decorator"], [n_ for n_, _ in spec["params"]], key[1], x.get("msg", "")[:80], key[2])
        ck.violation(what + " (%d cases of this class)" % len(lst),
                     {"kind": "acceptance" if key[0] in ("acceptance", "text") else "crash", "param_case": spec, "version": version, "frame_pointers": fp,
                      "result": {k_: v_ for k_, v_ in x.items() if k_ != "value"}, "python": "harness/c20.py build_param_case(pt, param_case)"})
    return stats


# ---------------------------------------------------------------------------------------------
# ill-typed ABI assignments: every entry point, sources of a DIFFERENT type than the target
# ---------------------------------------------------------------------------------------------
ABI_TYPES = ["uint8", "uint16", "uint32", "uint64", "bool", "byte", "address", "string", "dynbytes", "sbytes4", "sarr_u64_2", "sarr_bool_3",
             "darr_u64", "darr_str", "tup_u64_str", "tup_bool_byte_u16", "named_u64_str"]
ABI_ENTRIES = ["set_instance", "set_tuple_elem", "set_named_field", "set_sarray_elem", "set_darray_elem", "set_returned",
               "store_tuple_elem", "store_named_field", "store_sarray_elem", "store_darray_elem", "store_returned"]
ABI_PY_VALUES = ["'text'", "b'by'", "-1", "2**70", "256", "3.5", "None", "[1, 2, 3]", "[]", "(1, 'a')", "True", "[True, 'x']", "'A' * 58", "b'x' * 31", "object()"]
ABI_DECODES = ["decode(Int(1))", "decode(Bytes('ab'), start_index=Bytes('a'))", "decode(Bytes('ab'), end_index=Int(1), length=Int(1))",
               "decode(Bytes('ab'), start_index=Int(0), end_index=Bytes('z'))", "decode('notexpr')", "decode(Bytes('ab'), length=None, start_index=1)"]


def abi_type(pt, name):
    abi = pt.abi
    import typing
    L = typing.Literal
    if name == "named_u64_str":
        if "_nt" not in abi_type.__dict__:
            abi_type._nt = type("NT", (abi.NamedTuple,), {"__annotations__": {"a": abi.Field[abi.Uint64], "b": abi.Field[abi.String]}})
        return abi_type._nt
    return {"uint8": abi.Uint8, "uint16": abi.Uint16, "uint32": abi.Uint32, "uint64": abi.Uint64, "bool": abi.Bool, "byte": abi.Byte,
            "address": abi.Address, "string": abi.String, "dynbytes": abi.DynamicBytes, "sbytes4": abi.StaticBytes[L[4]],
            "sarr_u64_2": abi.StaticArray[abi.Uint64, L[2]], "sarr_bool_3": abi.StaticArray[abi.Bool, L[3]],
            "darr_u64": abi.DynamicArray[abi.Uint64], "darr_str": abi.DynamicArray[abi.String],
            "tup_u64_str": abi.Tuple2[abi.Uint64, abi.String], "tup_bool_byte_u16": abi.Tuple3[abi.Bool, abi.Byte, abi.Uint16]}[name]


def build_abi_case(pt, spec):
    """-> expression performing ONE ill-typed ABI assignment (raises at construction when PyTeal refuses it there)"""
    abi, Seq, Int, Bytes = pt.abi, pt.Seq, pt.Int, pt.Bytes
    import typing
    tgt = abi.make(abi_type(pt, spec["target"]))
    entry = spec["entry"]
    if entry == "python":
        return Seq(tgt.set(eval(spec["value"])), pt.Approve())
    if entry == "decode":
        return Seq(eval("tgt." + spec["value"], {"tgt": tgt, "Int": Int, "Bytes": Bytes}), pt.Approve())
    S_ = abi_type(pt, spec["source"])
    what = entry.split("_", 1)[1]
    if what == "instance":
        val = abi.make(S_)
    elif what == "tuple_elem":
        val = abi.make(abi.Tuple2[abi.Uint64, S_])[1]
    elif what == "named_field":
        nt = type("NTs", (abi.NamedTuple,), {"__annotations__": {"k": abi.Field[abi.Uint64], "x": abi.Field[S_]}})
        val = abi.make(nt).x
    elif what == "sarray_elem":
        val = abi.make(abi.StaticArray[S_, typing.Literal[2]])[1]
    elif what == "darray_elem":
        val = abi.make(abi.DynamicArray[S_])[Int(0)]
    else:
        ns = {"S_": S_, "Bytes": Bytes}
        exec("def produce(*, output: S_):\n    return output.decode(Bytes('base16', '00'))\n", ns)
        val = pt.ABIReturnSubroutine(ns["produce"])()
    if entry.startswith("set_"):
        return Seq(tgt.set(val), pt.Approve())
    return Seq(val.store_into(tgt), pt.Approve())


def run_abi_case(pt, spec, version):
    def go():
        e = build_abi_case(pt, spec)
        return pt.compileTeal(e, pt.Mode.Application, version=version)
    return real_call(pt, go)


def abi_case_specs(thorough):
    out = []
    for ti, t in enumerate(ABI_TYPES):
        for si, s_ in enumerate(ABI_TYPES):
            if s_ == t:
                continue
            for ei, e in enumerate(ABI_ENTRIES):
                if thorough or (ti + si + ei) % 3 == 0 or e in ("set_tuple_elem", "store_tuple_elem", "set_named_field"):
                    out.append({"target": t, "source": s_, "entry": e})
        for v in ABI_PY_VALUES:
            out.append({"target": t, "entry": "python", "value": v})
        for d in ABI_DECODES:
            out.append({"target": t, "entry": "decode", "value": d})
    return out


def stream_abi_illtyped(run, thorough):
    """every case must end in TEAL (PyTeal considers the assignment legal) or one of the five PyTeal errors"""
    pt, ck = run.pt, run.ck
    stats, bad = {}, {}
    for j, spec in enumerate(abi_case_specs(thorough)):
        for version in ((6, 8) if thorough or j % 2 == 0 else (8,)):
            x = run_abi_case(pt, spec, version)
            cls = "ok" if x["outcome"] == "ok" else x.get("exc", x["outcome"])
            ck.count(("abi-illtyped", json.dumps(spec, sort_keys=True), version), nontrivial=(x["outcome"] == "pyteal"))
            stats[spec["entry"].split("_")[0] + ":" + cls] = stats.get(spec["entry"].split("_")[0] + ":" + cls, 0) + 1
            if x["outcome"] in ("crash", "timeout"):
                inner = tuple(f[1] for f in ((x.get("tb") or {}).get("inner") or [])[-2:])
                undeclared = (spec["entry"] == "python" and not py_value_declared(spec["target"], spec["value"])) or \
                             (spec["entry"] == "decode" and not decode_args_declared(spec["value"]))
                in_compile = "compileTeal" in [f_[0] for f_ in ((x.get("tb") or {}).get("top") or [])]
                if undeclared and cls in ("TypeError", "AttributeError") and not in_compile:
                    stats["argument of an undeclared Python type:" + cls] = stats.get("argument of an undeclared Python type:" + cls, 0) + 1
                    continue
                bad.setdefault((spec["entry"], cls, inner), []).append((spec, version, x))
    for (entry, cls, inner), lst in bad.items():
        f = ck.match_known(lambda f: abi_finding_matches(f, entry, cls, inner))
        if f is not None:
            ck.known(f["id"], f["what"])
            continue
        spec, version, x = lst[0]
        ck.violation("%s (innermost frames %s): a non-PyTeal exception for the ill-typed ABI assignment %s (%d cases of this class)" % (
            cls, "/".join(inner), json.dumps(spec), len(lst)),
            {"kind": "crash", "abi_case": spec, "version": version, "result": {k_: v_ for k_, v_ in x.items() if k_ != "value"},
             "python": "harness/c20.py build_abi_case(pt, abi_case)", "cases_of_this_class": [t[0] for t in lst[:30]]})
    return stats


def abi_finding_matches(f, entry, cls, inner):
    """no open finding has a class among the ABI assignment crashes (tuple-element-store-into-typeerror was repaired by 268422a)"""
    return False


def py_value_declared(target, value):
    """is the Python value of a type the target's set() declares (int for uintN/byte, bool for bool, str/bytes for address and string,
    bytes for byte strings, an empty sequence for arrays)?  Values of other Python types are API misuse outside the property's quantifier
    (types.require_type deliberately raises Python's TypeError for a non-Expr argument): they are counted, not judged."""
    kind = {"uint8": "uint", "uint16": "uint", "uint32": "uint", "uint64": "uint", "byte": "uint", "bool": "bool", "address": "addr", "string": "str",
            "dynbytes": "bytes", "sbytes4": "bytes"}.get(target, "seq")
    ok = {"uint": ("-1", "2**70", "256"), "bool": ("True",), "addr": ("'text'", "b'by'", "'A' * 58", "b'x' * 31"), "str": ("'text'", "b'by'", "'A' * 58", "b'x' * 31"),
          "bytes": ("b'by'", "b'x' * 31"), "seq": ("[]",)}[kind]
    return value in ok


def decode_args_declared(value):
    return "'notexpr'" not in value and "start_index=1" not in value


# ---------------------------------------------------------------------------------------------
# inner transactions with array-valued fields (Python lists of length 0, 1, 2 and TxnArray values)
# ---------------------------------------------------------------------------------------------
ITXN_ARRAY_FIELDS = ["accounts", "applications", "assets", "application_args", "approval_program_pages", "clear_state_program_pages"]


def build_itxn_case(pt, spec):
    Int, Bytes, Txn, Seq, B_ = pt.Int, pt.Bytes, pt.Txn, pt.Seq, pt.InnerTxnBuilder
    pool = {"accounts": [Txn.sender(), Txn.accounts[1], pt.Global.zero_address()], "applications": [Int(1), Txn.applications[1], Int(7)],
            "assets": [Int(5), Txn.assets[0], Int(9)], "application_args": [Bytes("a"), Txn.application_args[0], Bytes("c")],
            "approval_program_pages": [Bytes("x"), Bytes("y"), Bytes("z")], "clear_state_program_pages": [Bytes("x"), Bytes("y"), Bytes("z")]}
    fld = getattr(pt.TxnField, spec["field"])
    if spec["value"] == "txnarray":
        val = getattr(Txn, {"approval_program_pages": "approval_program_pages", "clear_state_program_pages": "clear_state_program_pages"}.get(spec["field"], spec["field"]))
    elif spec["value"] == "tuple":
        val = tuple(pool[spec["field"]][:spec["n"]])
    else:
        val = list(pool[spec["field"]][:spec["n"]])
    base = {pt.TxnField.type_enum: pt.TxnType.ApplicationCall, pt.TxnField.application_id: Int(1)}
    api = spec["api"]
    if api == "SetField":
        return Seq(B_.Begin(), B_.SetField(pt.TxnField.type_enum, pt.TxnType.ApplicationCall), B_.SetField(fld, val), B_.Submit(), pt.Approve())
    if api == "SetFields":
        return Seq(B_.Begin(), B_.SetFields({**base, fld: val}), B_.Submit(), pt.Approve())
    if api == "Execute":
        return Seq(B_.Execute({**base, fld: val}), pt.Approve())
    if api == "ExecuteMethodCall":
        return Seq(B_.ExecuteMethodCall(app_id=Int(1), method_signature="f()void", args=[], extra_fields={fld: val}), pt.Approve())
    return Seq(B_.Begin(), B_.MethodCall(app_id=Int(1), method_signature="f()void", args=[], extra_fields={fld: val}), B_.Submit(), pt.Approve())


def run_itxn_case(pt, spec):
    return real_call(pt, lambda: pt.compileTeal(build_itxn_case(pt, spec), pt.Mode.Application, version=spec["version"]))


def stream_itxn(run, thorough):
    """array-valued inner-transaction fields: a list of ANY length (0 included) must end in TEAL or a PyTeal error, and the outcome class for
    lengths 0 and 2 must be the one for length 1 (an empty list sets nothing)"""
    pt, ck = run.pt, run.ck
    stats, bad = {}, {}
    for fi, field in enumerate(ITXN_ARRAY_FIELDS):
        for ai, api in enumerate(("SetField", "SetFields", "Execute", "MethodCall", "ExecuteMethodCall")):
            for version in ((5, 6, 7, 8, 9, 10) if thorough else ((6, 8, 10) if (fi + ai) % 2 == 0 else (7, 9))):
                ref = None
                for value, n_ in (("list", 1), ("list", 0), ("list", 2), ("list", 3), ("tuple", 0), ("tuple", 2), ("txnarray", 0)):
                    spec = {"api": api, "field": field, "value": value, "n": n_, "version": version}
                    x = run_itxn_case(pt, spec)
                    cls = "ok" if x["outcome"] == "ok" else x.get("exc", x["outcome"])
                    ck.count(("itxn", json.dumps(spec, sort_keys=True)), nontrivial=(x["outcome"] == "ok"))
                    stats["%s:%s" % (value, cls)] = stats.get("%s:%s" % (value, cls), 0) + 1
                    if value == "list" and n_ == 1:
                        ref = cls
                    if x["outcome"] in ("crash", "timeout"):
                        inner = tuple(f[1] for f in ((x.get("tb") or {}).get("inner") or [])[-2:])
                        bad.setdefault(("crash", cls, inner), []).append((spec, x, ref))
                    elif value == "list" and ref == "ok" and cls != "ok":
                        bad.setdefault(("acceptance", cls, ()), []).append((spec, x, ref))
    for (kind, cls, inner), lst in list(bad.items())[:4]:
        spec, x, ref = lst[0]
        what = ("%s (innermost frames %s): a non-PyTeal exception for InnerTxnBuilder.%s with TxnField.%s = a %s of length %d at version %d" % (
            cls, "/".join(inner), spec["api"], spec["field"], spec["value"], spec["n"], spec["version"])) if kind == "crash" else \
            ("InnerTxnBuilder.%s with TxnField.%s = a list of length %d ends in %s at version %d although a list of length 1 compiles" % (
                spec["api"], spec["field"], spec["n"], cls, spec["version"]))
        ck.violation(what + " (%d cases of this class)" % len(lst),
                     {"kind": kind, "itxn_case": spec, "result": {k_: v_ for k_, v_ in x.items() if k_ != "value"}, "python": "harness/c20.py build_itxn_case(pt, itxn_case)"})
    return stats


# ---------------------------------------------------------------------------------------------
# mode dimension: programs without application-only constructs must end alike as logic signature and as application
# (frame-pointer subroutines with runs of ABI locals make the compiler emit dupn / popn / bury / frame_dig / frame_bury / proto itself)
# ---------------------------------------------------------------------------------------------
IMPLICIT_OPS = ["dupn", "popn", "bury", "frame_dig", "frame_bury", "proto", "cover", "uncover", "dig", "swap", "dup", "dup2", "pop", "select",
                "callsub", "retsub", "load", "store", "loads", "stores", "b", "bz", "bnz", "return", "err", "assert", "int", "byte", "addr", "method",
                "intcblock", "intc", "intc_0", "intc_1", "intc_2", "intc_3", "bytecblock", "bytec", "bytec_0", "bytec_1", "bytec_2", "bytec_3",
                "pushint", "pushbytes", "extract", "extract3", "substring", "substring3", "getbit", "setbit", "getbyte", "setbyte", "itob", "btoi",
                "concat", "len", "bzero", "extract_uint16", "extract_uint32", "extract_uint64", "mulw", "divmodw", "!", "+", "-", "*", "/", "==", "<", ">"]


def independent_op_table():
    """(name -> (min_version, signature?, application?)) parsed from the hand-maintained langspec coq/AVM/Syntax.v (never regenerated from /repo)"""
    import re
    src = open(os.path.join(COQ, "AVM", "Syntax.v")).read()

    def arms(defname, pat):
        i = src.index("Definition %s " % defname)
        j = src.index("\n  end.", i)
        return dict(re.findall(pat, src[i:j]))
    names = arms("opc_name", r'\| (O_\w+) => "([^"]+)"')
    minv = arms("opc_minv", r"\| (O_\w+) => (\d+)")
    modes = {k_: (a_ == "true", b_ == "true") for k_, a_, b_ in re.findall(r"\| (O_\w+) => \((true|false), (true|false)\)", src[src.index("Definition opc_modes "):])}
    return {nm: (int(minv[o_]), modes[o_][0], modes[o_][1]) for o_, nm in names.items() if o_ in minv and o_ in modes}


def op_table_correspondence(run):
    pt, ck = run.pt, run.ck
    spec = independent_op_table()
    stats = {"ops compared": 0, "implicit ops compared": 0, "differences outside the implicit set": []}
    for o in pt.Op:
        nm, mv, md = o.value.value, o.value.min_version, o.value.mode
        if nm not in spec:
            continue
        stats["ops compared"] += 1
        got = (mv, bool(md & pt.Mode.Signature), bool(md & pt.Mode.Application))
        ck.count(("optable", nm), nontrivial=True)
        if nm in IMPLICIT_OPS:
            stats["implicit ops compared"] += 1
        if got != spec[nm]:
            if nm in IMPLICIT_OPS:
                ck.violation("op table: PyTeal lists %r as (min version %d, signature %s, application %s), the independent langspec (coq/AVM/Syntax.v) as (%d, %s, %s); "
                             "the compiler emits this op on its own" % ((nm,) + got + spec[nm]),
                             {"kind": "acceptance", "broken": "op table vs langspec", "op": nm, "pyteal": got, "langspec": spec[nm]}, no_failing_input=True)
            else:
                stats["differences outside the implicit set"].append([nm, got, spec[nm]])
    return stats


ABI_LOCAL_KINDS = {"u64": "abi.Uint64", "u8": "abi.Uint8", "bool": "abi.Bool", "str": "abi.String", "addr": "abi.Address"}


def build_abi_locals_case(pt, spec):
    """a subroutine that allocates the given ABI locals (runs of equal storage types become `int 0; dupn k`), called from main"""
    abi, Int, Seq = pt.abi, pt.Int, pt.Seq
    kinds = spec["locals"]

    def body(x, output=None):
        vals = [eval(ABI_LOCAL_KINDS[k_], {"abi": abi})() for k_ in kinds]
        stmts, total = [], x
        for i, (k_, v) in enumerate(zip(kinds, vals)):
            if k_ in ("u64", "u8"):
                stmts.append(v.set((x + Int(i)) % Int(200)))
                total = total + v.get()
            elif k_ == "bool":
                stmts.append(v.set(x > Int(i)))
                total = total + v.get()
            elif k_ == "str":
                stmts.append(v.set(pt.Bytes("ab")))
                total = total + v.length()
            else:
                stmts.append(v.set(pt.Global.zero_address()))
                total = total + pt.Len(v.get())
        if output is not None:
            return Seq(*stmts, output.set(total))
        return Seq(*stmts, total)
    if spec["decorator"] == "ABIReturnSubroutine":
        ns = {"abi": abi, "body": body}
        exec("def f(a: abi.Uint64, *, output: abi.Uint64):\n    return body(a.get(), output)\n", ns)
        f = pt.ABIReturnSubroutine(ns["f"])
        a, r = abi.Uint64(), abi.Uint64()
        return Seq(a.set(pt.Txn.fee()), f(a).store_into(r), pt.Return(r.get() == Int(6)))
    f = pt.Subroutine(pt.TealType.uint64)(lambda x: body(x))
    return pt.Return(f(pt.Txn.fee()) == Int(6))


def run_abi_locals_case(pt, spec, app):
    return real_call(pt, lambda: pt.compileTeal(build_abi_locals_case(pt, spec), pt.Mode.Application if app else pt.Mode.Signature, version=spec["version"],
                                                optimize=(None if spec.get("fp") is None else pt.OptimizeOptions(frame_pointers=spec["fp"]))))


def stream_modes(run, thorough):
    pt, ck = run.pt, run.ck
    stats, bad = {}, {}
    local_sets = [["u64"], ["u64", "u64"], ["u64"] * 3, ["u64"] * 5, ["str"] * 3, ["bool"] * 3, ["u64", "str", "u64"], ["u8", "u8", "str", "str", "str"],
                  ["addr", "addr", "addr", "u64"], ["u64"] * 9, []]
    for li, locs in enumerate(local_sets):
        for deco in ("Subroutine", "ABIReturnSubroutine"):
            for version, fp in (((6, None), (7, None), (8, None), (8, False), (9, None), (10, None), (10, False), (10, True)) if thorough
                                else ((8, None), (10, None), ((7, 9)[li % 2], None), (10, False))):
                spec = {"locals": locs, "decorator": deco, "version": version, "fp": fp}
                xa = run_abi_locals_case(pt, spec, True)
                xs = run_abi_locals_case(pt, spec, False)
                ca, cs = ("ok" if x["outcome"] == "ok" else x.get("exc", x["outcome"]) for x in (xa, xs))
                ck.count(("modes", json.dumps(spec, sort_keys=True)), nontrivial=(xs["outcome"] == "ok"))
                stats["sig:" + cs] = stats.get("sig:" + cs, 0) + 1
                stats["app:" + ca] = stats.get("app:" + ca, 0) + 1
                for x, c_, app in ((xa, ca, True), (xs, cs, False)):
                    if x["outcome"] in ("crash", "timeout"):
                        bad.setdefault(("crash", c_, app), []).append((spec, x, ca, cs))
                if xa["outcome"] != "crash" and xs["outcome"] != "crash" and ca != cs:
                    bad.setdefault(("mode", cs, ca), []).append((spec, xs, ca, cs))
    for key, lst in list(bad.items())[:3]:
        spec, x, ca, cs = min(lst, key=lambda t: len(t[0]["locals"]))
        if key[0] == "crash":
            what = "%s: a non-PyTeal exception for a subroutine with ABI locals %r (%s mode, version %d)" % (key[1], spec["locals"], "application" if key[2] else "signature", spec["version"])
        else:
            what = "a %s with ABI locals %r that uses no application-only construct ends in %s as a logic signature (%s) but in %s as an application (version %d, frame_pointers=%r)" % (
                spec["decorator"], spec["locals"], cs, x.get("msg", "")[:90], ca, spec["version"], spec["fp"])
        ck.violation(what + " (%d cases of this class)" % len(lst),
                     {"kind": "crash" if key[0] == "crash" else "acceptance", "abi_locals_case": spec, "result": {k_: v_ for k_, v_ in x.items() if k_ != "value"},
                      "python": "harness/c20.py build_abi_locals_case(pt, abi_locals_case)"})
    return stats


# ---------------------------------------------------------------------------------------------
# compile-history sessions: the outcome class of a compilation must not depend on what was compiled before
# ---------------------------------------------------------------------------------------------
SESSION_PRELUDES = [("sub_illtyped_body", 8), ("sub_illtyped_body", 6), ("sub_illtyped_body_byref", 8), ("abi_sub_illtyped_body", 8),
                    ("abi_sub_illtyped_body", 6), ("sub_body_raises", 8), ("break_outside", 6), ("op_too_new", 2), ("too_many_slots", 6),
                    ("return_bytes_main", 6), ("router_empty", 8), ("router_illtyped_method", 8), ("router_illtyped_method", 6)]
SESSION_SLICE = [(nm, v) for nm in ("abi_uint64_main", "abi_bool_byte_main", "abi_two_values_loop", "abi_string_main", "scratchvar_main") for v in range(2, 11)] + \
                [(nm, v) for nm in ("loop_first", "long_pop_50", "sub_ok", "abi_sub_ok", "router_ok") for v in (3, 6, 8, 10)]


def session_jobs():
    mk = lambda l: [{"prog": nm, "version": v} for nm, v in l]
    jobs = [[{"session": mk(SESSION_SLICE), "tag": "fresh", "timeout": 60}]]
    for p in SESSION_PRELUDES:
        jobs.append([{"session": mk([p] + SESSION_SLICE), "tag": "after:%s@v%d" % p, "timeout": 60}])
    jobs.append([{"session": mk(SESSION_PRELUDES + SESSION_SLICE), "tag": "after:all-preludes", "timeout": 60}])
    # ONE OptimizeOptions object used for several programs in turn (approval then clear-state, Router.compile_program(optimize=...)):
    # the outcome must equal the one with a fresh options object per program
    opt_slice = {"ss": [(nm, v) for v in (6, 9, 10) for nm in ("global_storeload", "global_storeload_in_sub", "shared_slot_sub", "abi_uint64_main", "scratchvar_main")],
                 "default": [(nm, v) for v in (9, 10) for nm in ("global_storeload", "global_storeload_in_sub", "shared_slot_sub", "abi_uint64_main", "scratchvar_main")]}
    for kind in ("ss", "default"):
        ref_steps = mk(opt_slice[kind])
        if kind == "ss":
            ref_steps += [{"prog": "router_pair_split", "version": v} for v in (6, 8, 10)] + [{"prog": "router_pair_combined", "version": v, "ss": True} for v in (6, 8, 10)]
        jobs.append([{"session": ref_steps, "tag": "fresh-options:" + kind, "fresh_optimize": kind, "timeout": 60}])
        for first in ("reserved_slot_main", "dynamic_slot_main", "shared_slot_sub"):
            jobs.append([{"session": mk([(first, opt_slice[kind][0][1])] + opt_slice[kind]), "tag": "shared-options:%s:after:%s" % (kind, first),
                          "shared_optimize": kind, "ref": "fresh-options:" + kind, "npre": 1, "timeout": 60}])
    return jobs


def step_class(s_):
    return "teal" if s_["outcome"] == "teal" else (s_.get("exc") or s_["outcome"])


def summarize_sessions(ck, wres):
    sess = [r for r in wres if r.get("outcome") == "session"]
    fresh = next((r for r in sess if r["job"].get("tag") == "fresh"), None)
    stats = {"sessions": len(sess), "steps": sum(len(r["steps"]) for r in sess), "class_differences": 0, "text_differences": 0, "prelude_outcomes": {}}
    ck.coverage["history_sessions"] = stats
    if fresh is None:
        if sess:
            ck.notes.append("history sessions: the fresh reference session did not run")
        return
    ref = {(s_["prog"], s_["version"]): s_ for s_ in fresh["steps"]}
    for s_ in fresh["steps"]:
        ck.count(("session", "fresh", s_["prog"], s_["version"]), nontrivial=(s_["outcome"] == "teal"))
        if s_["outcome"] in ("crash", "timeout"):
            ck.violation("history session (fresh interpreter): %s at version %d: %s" % (s_["prog"], s_["version"], step_class(s_)),
                         {"kind": "crash", "session": fresh["job"], "step": s_})
    reported = 0
    by_tag = {r["job"].get("tag"): r for r in sess}
    # Router.compile_program(optimize=o) compiles approval and clear-state with one options object: same outcome as separately
    fo = by_tag.get("fresh-options:ss")
    if fo is not None:
        comb = {s_["version"]: s_ for s_ in fo["steps"] if s_["prog"] == "router_pair_combined"}
        for s_ in fo["steps"]:
            if s_["prog"] == "router_pair_split" and s_["version"] in comb and step_class(comb[s_["version"]]) != step_class(s_):
                c_ = comb[s_["version"]]
                stats["class_differences"] += 1
                if stats.get("router_pair_reported"):
                    continue
                stats["router_pair_reported"] = 1
                ck.violation("Router.compile_program(version=%d, optimize=OptimizeOptions(scratch_slots=True)) ends in %s (%s); its approval and clear-state programs "
                             "compiled separately with fresh options end in %s" % (s_["version"], step_class(c_), c_.get("msg", "")[:80], step_class(s_)),
                             {"kind": "acceptance" if s_["outcome"] == "teal" else "history", "session": fo["job"], "step": c_, "fresh_step": s_})
    for r in sess:
        if r is fresh or r["job"].get("tag", "").startswith("fresh-options:"):
            continue
        refsess = by_tag.get(r["job"].get("ref", "fresh"))
        if refsess is None:
            continue
        ref = {(s_["prog"], s_["version"]): s_ for s_ in refsess["steps"]}
        npre = r["job"].get("npre", len(r["steps"]) - len(fresh["steps"]))
        for s_ in r["steps"][:npre]:
            kk = "%s@v%d:%s" % (s_["prog"], s_["version"], step_class(s_))
            stats["prelude_outcomes"][kk] = stats["prelude_outcomes"].get(kk, 0) + 1
            if s_["outcome"] in ("crash", "timeout"):
                ck.violation("history session %s: prelude program %s at version %d: %s (not a PyTeal error)" % (r["job"]["tag"], s_["prog"], s_["version"], step_class(s_)),
                             {"kind": "crash", "session": r["job"], "step": s_})
        diffs = []
        for s_ in r["steps"][npre:]:
            ck.count(("session", r["job"]["tag"], s_["prog"], s_["version"]), nontrivial=(s_["outcome"] == "teal"))
            f = ref.get((s_["prog"], s_["version"]))
            if f is None:
                continue
            if step_class(s_) != step_class(f):
                diffs.append((s_, f))
            elif s_["outcome"] == "teal" and s_.get("sha") != f.get("sha"):
                stats["text_differences"] += 1
        stats["class_differences"] += len(diffs)
        if diffs and reported < 3:
            reported += 1
            s_, f = min(diffs, key=lambda d: (d[1]["outcome"] != "teal", d[0]["version"]))
            shared_opt = "shared_optimize" in r["job"]
            ck.violation("session %s: %s at version %d ends in %s; %s it ends in %s (%d programs of the slice change their outcome class)" % (
                r["job"]["tag"], s_["prog"], s_["version"], step_class(s_),
                "with a fresh OptimizeOptions object per program" if shared_opt else "in a fresh interpreter", step_class(f), len(diffs)),
                         {"kind": "acceptance" if f["outcome"] == "teal" else "history", "session": r["job"], "fresh_session": refsess["job"],
                          "step": s_, "fresh_step": f, "all_differences": [(a["prog"], a["version"], step_class(a), step_class(b_)) for a, b_ in diffs][:40]})


def replay(path):
    import pyteal as pt
    data = json.load(open(path))
    print(json.dumps({k: data[k] for k in data if k in ("what", "kind", "broken")}, indent=1))
    if "job" in data:
        res = run_worker_jobs([[data["job"]]], wall=200)
        print(json.dumps(res, indent=1)[:3000])
        r = res[0] if res else {"outcome": "worker-died"}
        bad = r.get("outcome") in ("crash", "worker-died", "timeout") or (data.get("kind") == "acceptance" and r.get("outcome") == "pyteal")
        print("still failing" if bad else "no longer failing")
        return 1 if bad else 0
    if "session" in data:
        jobs = [[data["session"]]] + ([[data["fresh_session"]]] if "fresh_session" in data else [])
        res = run_worker_jobs(jobs, wall=300)
        by = {r["job"].get("tag"): r for r in res if r.get("outcome") == "session"}
        a = by.get(data["session"].get("tag"))
        st_ = data["step"]
        now = next((x for x in (a or {}).get("steps", [])[::-1] if x["prog"] == st_["prog"] and x["version"] == st_["version"]), None)
        print("step now:", json.dumps(now)[:600])
        if "fresh_session" in data:
            f = by.get(data["fresh_session"].get("tag"))
            fnow = next((x for x in (f or {}).get("steps", []) if x["prog"] == st_["prog"] and x["version"] == st_["version"]), None)
            print("fresh   :", json.dumps(fnow)[:600])
            bad = now is None or fnow is None or step_class(now) != step_class(fnow)
        else:
            bad = now is None or now["outcome"] in ("crash", "timeout")
        print("still failing" if bad else "no longer failing")
        return 1 if bad else 0
    if "abi_locals_case" in data:
        xa, xs = run_abi_locals_case(pt, data["abi_locals_case"], True), run_abi_locals_case(pt, data["abi_locals_case"], False)
        cl = lambda x: "ok" if x["outcome"] == "ok" else x.get("exc", x["outcome"])
        print("application:", cl(xa), "| signature:", cl(xs), xs.get("msg", "")[:200])
        bad = "crash" in (xa["outcome"], xs["outcome"]) or cl(xa) != cl(xs)
        print("still failing" if bad else "no longer failing")
        return 1 if bad else 0
    if "itxn_case" in data:
        x = run_itxn_case(pt, data["itxn_case"])
        print(json.dumps({k: v for k, v in x.items() if k != "value"}, default=repr)[:800])
        bad = x["outcome"] in ("crash", "timeout") or (data.get("kind") == "acceptance" and x["outcome"] != "ok")
        print("still failing" if bad else "no longer failing")
        return 1 if bad else 0
    if "abi_case" in data:
        x = run_abi_case(pt, data["abi_case"], data["version"])
        print(json.dumps({k: v for k, v in x.items() if k != "value"}, default=repr)[:800])
        bad = x["outcome"] in ("crash", "timeout")
        print("still failing" if bad else "no longer failing")
        return 1 if bad else 0
    if "param_case" in data:
        x = compile_param_case(pt, data["param_case"], data["version"], data.get("frame_pointers"), False)
        r_ = compile_param_case(pt, data["param_case"], data["version"], data.get("frame_pointers"), True)
        print("with the given names:", json.dumps({k: v for k, v in x.items() if k != "value"}, default=repr)[:500])
        print("with neutral names  :", json.dumps({k: v for k, v in r_.items() if k != "value"}, default=repr)[:300])
        bad = x["outcome"] in ("crash", "timeout") or x["outcome"] != r_["outcome"] or x.get("exc") != r_.get("exc") or x.get("value") != r_.get("value")
        print("still failing" if bad else "no longer failing")
        return 1 if bad else 0
    if "const_spec" in data:
        app = data.get("mode", "app") == "app"
        x = compile_const_spec(pt, data["const_spec"], data["version"], app, True, data.get("api", "compileTeal"))
        b_ = compile_const_spec(pt, data["const_spec"], data["version"], app, False, "compileTeal")
        print("with constant assembly   :", json.dumps({k: v for k, v in x.items() if k != "value"}, default=repr)[:600])
        print("without constant assembly:", json.dumps({k: v for k, v in b_.items() if k != "value"}, default=repr)[:300])
        cls = lambda y: "ok" if y["outcome"] == "ok" else y.get("exc", y["outcome"])
        want = "TealInternalError" if (cls(b_) == "ok" and data["version"] < 3) else ("TealInputError" if (cls(b_) == "ok" and has_undecodable_addr(data["const_spec"])) else cls(b_))
        bad = x["outcome"] in ("crash", "timeout") or cls(x) != want
        print("still failing" if bad else "no longer failing")
        return 1 if bad else 0
    if "router" in data:
        mk = dict(router_cases(pt))[data["router"]]
        x = real_call(pt, lambda: mk().compile_program(version=data["version"], optimize=(pt.OptimizeOptions(scratch_slots=True) if data.get("optimize") else None)), timeout=60)
        print(json.dumps({k: x[k] for k in x if k != "value"}, indent=1, default=repr)[:2000])
        bad = x["outcome"] in ("crash", "timeout")
        print("still failing" if bad else "no longer failing")
        return 1 if bad else 0
    if "case" not in data:
        return 0
    cd = data["case"]
    subs = [(k, n, r, kd, eval(b)) for (k, n, r, kd, b) in cd.get("subs", [])]
    c = C20Case(eval(cd["recipe"]), cd["version"], cd["mode"] == "app", cd["scratch_slots"], cd["frame_pointers"], subs,
                assemble=cd.get("assemble_constants", False), reserved={eval(k): v for k, v in cd.get("reserved", [])})
    try:
        model = Model("c20")
    except RuntimeError:          # the model binary cannot be (re)built right now: replay the implementation alone
        model = None
    run_case(pt, model, c, ask_model=(model is not None))
    print(json.dumps(c.describe(), indent=1, default=repr)[:4000])
    bad = (c.build["outcome"] == "crash") or (c.realx is not None and c.realx["outcome"] in ("crash", "timeout"))
    if data.get("kind") == "acceptance":
        bad = bad or (c.realx is not None and c.realx["outcome"] == "pyteal")
    print("still failing" if bad else "no longer failing")
    return 1 if bad else 0


def main(argv):
    if "--shard" in argv:
        i = argv.index("--shard")
        k, n = int(argv[i + 1]), int(argv[i + 2])
        rest = argv[:i] + argv[i + 3:]
        return shard_main(k, n, parse_args(rest).tier)
    args = parse_args(argv)
    if args.replay:
        return replay(args.replay)
    ck = Check("C20", args.tier)
    thorough = args.tier == "thorough"
    import pyteal as pt
    rc, out = sh("%s %s/harness/translate.py" % (PY, VERIF))
    if rc != 0:
        ck.violation("translator aborted: PyTeal's tables no longer have the expected shape", {"broken": "harness/translate.py", "log": out[-2000:]}, no_failing_input=True)
        return ck.finish(level="proof", rule="translator failed")

    import threading
    # ---- (1) proofs: built in a side thread (coqc subprocesses) while the correspondence runs
    proof_state = {}

    def proofs():
        t0 = time.time()
        # Props/C20_late.v: sortBlocks / flattenBlocks / optimiser / assembly never fail on a routine compile_one accepts (any control flow);
        # no Crash* outcome of compile_model for programs without deferred expressions
        ck.run_proofs("Props/C20.v", PROOF_FILES + ['Proofs/LatePassTotalReach.v', 'Proofs/LatePassTotalNorm.v', 'Proofs/LatePassTotal.v', 'Proofs/LatePassTotalExamples.v', 'Proofs/LatePassTotalProgram.v', 'Proofs/LatePassTotalOpt.v', 'Proofs/LatePassTotalAccept.v'], extra_targets=["Extract/Main_c20.vo"], extra_props=["Props/C20_late.v"])
        tree_ok = True
        if os.path.exists(os.path.join(COQ, TREE_PROPS)):
            deps = tree_prop_deps()
            ok1, log1 = coq_make(deps, tag="C20")
            okp, thms, assum, plog = coq_props(TREE_PROPS) if ok1 else (False, [], "", log1)
            stated, closed, _ = count_obligations([TREE_PROPS] + [d[:-1] for d in deps if d.startswith("Proofs/")])
            ck.coverage["obligations"] += stated
            ck.coverage["discharged"] += closed if (okp and ck.proof_ok) else 0
            ck.coverage["property_theorems"] = ck.coverage.get("property_theorems", []) + thms
            ck.coverage["print_assumptions_tree"] = assum.splitlines()[-30:]
            ax = [l for l in assum.splitlines() if l.strip() and "Closed under the global context" not in l and not l.startswith("File ") and "Warning" not in l]
            ck.coverage["axioms_reported"] = ck.coverage.get("axioms_reported", []) + ax
            tree_ok = bool(okp and stated == closed)
            if not tree_ok:
                ck.coverage["proof_failure_log_tree"] = (plog or log1)[-2000:]
                ck.coverage["discharged"] = 0
        else:
            ck.notes.append("Props/C20_tree.v (tree-validity theorems of addIncoming/validateTree/NormalizeBlocks) not present in this tree")
        proof_state["tree_ok"] = tree_ok
        ck.coverage["proofs_total_s"] = round(time.time() - t0, 1)
    pth = threading.Thread(daemon=True, target=proofs)
    pth.start()
    if not pv_is_current("c20"):
        pth.join()              # the extracted model has to be rebuilt from freshly compiled sources first

    # the long / deep / slow families and the compile-history sessions run in worker interpreters beside everything else
    worker_groups = family_jobs(thorough) + session_jobs()
    worker_out = {}
    wt = threading.Thread(daemon=True, target=lambda: worker_out.setdefault("r", run_worker_jobs(worker_groups, wall=(1000 if thorough else 170))))
    wt.start()

    model = Model("c20")
    run = Run(ck, pt, model)
    rng = ck.rng

    # ---- (2a-d) corpus, small shapes, control-flow programs, random programs, subroutine programs: sharded over processes
    ts = time.time()
    nshards = int(os.environ.get("C20_SHARDS", "12" if thorough else "8"))
    shard_procs = start_shards(nshards, args.tier)
    shapes = all_shapes()
    ck.coverage["small_shapes"] = len(shapes)

    # ---- (2e) other entry points: Compilation.compile, assembleConstants, type_track, Router
    t0 = time.time()
    api_stats = api_variants(run, shapes, rng, thorough)
    ck.coverage["api_variants"] = api_stats
    ck.coverage["api_s"] = round(time.time() - t0, 1)

    t0 = time.time()
    ck.coverage["constant_dense_template_programs"] = stream_consts(run, thorough)
    ck.coverage["consts_s"] = round(time.time() - t0, 1)

    t0 = time.time()
    ck.coverage["odd_parameter_names"] = stream_param_names(run, thorough)
    ck.coverage["param_names_s"] = round(time.time() - t0, 1)

    t0 = time.time()
    ck.coverage["ill_typed_abi_assignments"] = stream_abi_illtyped(run, thorough)
    ck.coverage["abi_illtyped_s"] = round(time.time() - t0, 1)

    t0 = time.time()
    ck.coverage["inner_txn_array_fields"] = stream_itxn(run, thorough)
    ck.coverage["itxn_s"] = round(time.time() - t0, 1)

    t0 = time.time()
    ck.coverage["signature_vs_application_mode"] = stream_modes(run, thorough)
    ck.coverage["op_table_vs_langspec"] = op_table_correspondence(run)
    ck.coverage["modes_s"] = round(time.time() - t0, 1)

    # ---- (2f) complexity probes (deterministic call counts, not timings)
    t0 = time.time()
    cx = complexity_probes(pt)
    ck.coverage["complexity_probes"] = cx
    ck.coverage["probes_s"] = round(time.time() - t0, 1)

    # ---- merge the shards; every case a shard flagged is re-run and judged here
    tm = time.time()
    merge_shards(run, shard_procs, nshards, thorough)
    ck.coverage["streams_wall_s"] = round(time.time() - ts, 1)
    ck.coverage["waited_for_shards_s"] = round(time.time() - tm, 1)

    # ---- (3) worker families + diagnosis of in-process RecursionErrors
    t0 = time.time()
    wt.join()
    ck.coverage["waited_for_workers_s"] = round(time.time() - t0, 1)
    wres = worker_out.get("r", [])
    if run.pending_recursion:
        jobs = []
        for c, origin in run.pending_recursion[:40]:
            jobs.append({"recipe": repr(c.recipe), "subs": [[k, nme, r_, kd, repr(bd)] for (k, nme, r_, kd, bd) in c.subs], "version": c.version,
                         "app": c.app, "ss": c.ss, "fp": c.fp, "timeout": 20, "deep_timeout": 40, "tag": "pending"})
        diag = run_worker_jobs([jobs[i::4] for i in range(4)], wall=120)
        bykey = {}
        for r in diag:
            bykey[json.dumps(r.get("job"), sort_keys=True)] = r
        for (c, origin), j in zip(run.pending_recursion[:40], jobs):
            r = bykey.get(json.dumps({k: j[k] for k in j if k != "recipe"}, sort_keys=True))
            wres.append(dict(r or {"outcome": "worker-died", "job": {}}, case=c.describe(), origin=origin))
        for c, origin in run.pending_recursion[40:]:
            run.crashes.append((c, "compile", origin))
    t0 = time.time()
    fam = summarize_families(ck, run, wres, model)
    ck.coverage["families"] = fam
    ck.coverage["families_summary_s"] = round(time.time() - t0, 1)

    summarize_sessions(ck, wres)

    # ---- (4) known findings replayed against the real code
    replay_known(ck, run, pt, wres, cx)
    pth.join()
    proofs_ok = bool(getattr(ck, "proof_ok", False)) and proof_state.get("tree_ok", False)

    # ---- (5) verdict
    viol = 0
    groups = {}
    for c, where, origin in run.crashes:
        x = c.build if where in ("construction", "sub-definition", "construction-timeout") else (c.realx or {})
        inner = tuple(map(tuple, ((x.get("tb") or {}).get("inner") or [])[-1:]))
        groups.setdefault((where, x.get("exc", where), inner), []).append((c, where, origin))
    for (where, exc, inner), lst in list(groups.items())[:6]:
        c, where, origin = min(lst, key=lambda t: recipe_nodes(t[0].recipe))
        f = ck.match_known(lambda f: finding_matches_case(f, c, where))
        if f is not None:
            ck.known(f["id"], f["what"])
            continue

        def same(c2, exc=exc):
            x = c2.build if c2.build["outcome"] != "ok" else c2.realx
            return x is not None and x["outcome"] in ("crash", "timeout") and x.get("exc", "timeout") == exc
        small = shrink(pt, model, c, same) if where in ("compile", "timeout") and not thorough_skip(c) else c
        ck.violation("%s: the real compiler %s on a program assembled from the public constructors (%s; %d cases of this class, first from the %s stream)" % (
            exc, "did not finish within the time limit" if "timeout" in where else "raised a non-PyTeal exception", where, len(lst), origin),
            {"kind": "crash", "case": small.describe(), "original_nodes": recipe_nodes(c.recipe), "shrunk_nodes": recipe_nodes(small.recipe),
             "cases_of_this_class": len(lst)})
        viol += 1
    for c in run.accept_fail[:3]:
        ck.violation("a well-typed program (Coq spec Src/WellTyped.v) that the faithful model accepts is refused by the real compiler with %s" % real_class(c),
                     {"kind": "acceptance", "case": c.describe()})
        viol += 1
    for c in run.wt_fail[:3]:
        ck.violation("a recipe the Coq well-typedness spec accepts is refused by PyTeal's constructors (%s)" % c.build.get("exc"),
                     {"kind": "acceptance", "case": c.describe()})
        viol += 1
    other_mismatch = [c for c in run.mismatch if c not in run.accept_fail]
    if other_mismatch and viol == 0:
        c = other_mismatch[0]
        ck.violation("correspondence broken: outcome class of compile_model (%s) differs from the real compiler's (%s) on %d generated programs; "
                     "no crash of the real compiler was found among them" % (model_class(c), real_class(c), len(other_mismatch)),
                     {"kind": "correspondence", "broken": "outcome-class equality compileTeal vs Comp.Compile.compile_model", "case": c.describe()},
                     no_failing_input=True)
        viol += 1
    if run.depth_mismatch and viol == 0:
        c, a, b_ = run.depth_mismatch[0]
        ck.violation("correspondence broken: recursion depth of the real addIncoming (%r) differs from the model's depth (%r) on %d programs "
                     "(walk_depth_is_program_length no longer transfers)" % (a, b_, len(run.depth_mismatch)),
                     {"kind": "correspondence", "broken": "addIncoming recursion depth vs Comp.Passes.add_incoming", "case": c.describe()}, no_failing_input=True)
        viol += 1
    if not proofs_ok and viol == 0:
        ck.violation("proof obligation broken: Props/C20.v%s no longer checks" % ("" if proof_state.get("tree_ok", False) else " / Props/C20_tree.v"),
                     {"kind": "proof", "broken": "Props/C20.v" if not ck.proof_ok else TREE_PROPS,
                      "log": (getattr(ck, "proof_log", "") or "")[-1500:]}, no_failing_input=True)
    ck.coverage["harness_process_cpu_s"] = round(time.process_time(), 1)
    ck.coverage["compile_outcomes"] = run.outcomes
    ck.coverage["constructor_histogram"] = run.hist
    ck.coverage["outcome_class_mismatches"] = len(run.mismatch)
    ck.coverage["text_mismatches_among_class_agreements"] = run.text_mismatch
    ck.coverage["addIncoming_depth_compared"] = run.depth_checked
    ck.coverage["theorem_instances_checked(straight fragment)"] = run.straight_checked
    ck.coverage["disagreements_checked"] = len(run.mismatch) + len(run.depth_mismatch) + len(run.crashes) + len(run.pending_recursion)
    model.close()
    return ck.finish(
        level="proof",
        rule="recipes (terms of coq/Src/Expr.v) built through PyTeal's public constructors: earlier failures first, then exhaustive small control-flow shapes "
             "(progcorpus.small_recipes + c20_shapes: loop first, body only Break/Continue, empty sequences, nested loops/conditionals, one-armed Cond/If, "
             "empty For parts, Assert forms, Return in the middle, MaybeValue, store/load in loop conditions) x versions 2..10 x both modes x OptimizeOptions matrix, "
             "seeded nested control-flow programs (Break/Continue in If arms inside loops, sequences of loops), seeded random programs (5..90 nodes) and an "
             "ill-typed mutation of every third, generated subroutine programs, compile-history sessions (a refused program first, then an acceptance slice "
             "incl. ABI values in main at versions 2..10, compared with a fresh interpreter), API variants (Compilation.compile, "
             "assembleConstants, assembly_type_track, Router.compile_program), and size families (50..1000 statements, nesting 50..1000, 1..300 variables, "
             "1..200 subroutines) in worker interpreters at the default recursion limit; each real outcome is classified TEAL | PyTeal error | crash and "
             "compared with the Coq model's outcome class; distinct = (recipe, subroutines, version, mode, options); non-trivial = compiles to TEAL",
        trusted_base=[
            "Comp/*.v is a hand model of pyteal/ast/*.__teal__, ir/tealblock.py, compiler/*.py, tied on every run by outcome-class equality (and exact TEAL text, counted) with compileTeal; Gen/Tables.v regenerated from the code",
            "Src/WellTyped.v: hand-written spec of the constructor-time type checks (conservative; tied by 'accepted by the spec => constructible and, if the model accepts, compiled')",
            "Python's recursion limit is not modelled as a number: walk_depth_unbounded proves unboundedness of the required depth, the worker measures the real depth (sys.monitoring) at the default limit",
            "harness/build.py maps recipe nodes to public PyTeal constructors; harness/c20_worker.py builds the size families directly",
            "Extraction: ExtrOcamlBasic + ExtrOcamlNativeString; driver.ml",
        ],
        explanation="partial: acceptance is proved for the straight-line fragment only; for branching/looping/slot-using/subroutine programs the model's outcome is compared with the implementation on the explored cases")


# ---------------------------------------------------------------------------------------------
def thorough_skip(c):
    return recipe_nodes(c.recipe) > 400


def tree_prop_deps():
    src = open(os.path.join(COQ, TREE_PROPS)).read()
    import re
    deps = []
    for m in re.finditer(r"\b(Proofs|Comp|Src)\.([A-Za-z0-9_]+)", src):
        f = "%s/%s.v" % (m.group(1), m.group(2))
        if os.path.exists(os.path.join(COQ, f)) and f[:-2] + ".vo" not in deps:
            deps.append(f[:-2] + ".vo")
    return deps


def family_jobs(thorough):
    """worker job groups (one interpreter each)"""
    def J(fam, n, v, **kw):
        d = {"family": fam, "n": n, "version": v, "timeout": 60, "deep_timeout": 60}
        d.update(kw)
        return d
    sizes = [50, 100, 200, 400, 600, 1000]
    g = []
    g.append([J("long_pop", n, 6) for n in sizes] + [J("long_pop", n, 6) for n in (490, 494, 496, 498, 500, 505)])
    g.append([J("long_pop", n, 9) for n in sizes] + [J("long_log", n, 8) for n in (100, 400, 1000)])
    g.append([J("long_store", n, v) for n in sizes for v in (6, 9)])
    g.append([J("long_assert", n, v) for n in (50, 200, 400) for v in (2, 6)])
    g.append([J("nest_add", n, 6) for n in (50, 200, 500, 1000)] + [J("nest_minus", n, 6) for n in (50, 200, 500)] + [J("nest_not", n, 6) for n in (50, 200, 500, 1000)])
    g.append([J("nest_seq", n, 6) for n in (50, 200, 500)] + [J("nary_add", n, 6) for n in (50, 500, 1000)] + [J("nary_concat", n, 6) for n in (50, 500)])
    g.append([J("seq_if", n, v) for n in (10, 50, 100, 150, 300) for v in (6, 9)])
    g.append([J("seq_ifelse", n, v) for n in (10, 50, 100, 200) for v in (6, 9)] + [J("seq_while", n, v) for n in (10, 50, 150) for v in (6, 9)])
    g.append([J("diamonds", n, v) for n in (4, 8, 12, 16, 40, 80) for v in (8, 9, 10)] + [J("half_diamonds", n, 9) for n in (8, 16, 40, 80)])
    g.append([J("nested_if", n, 6) for n in (4, 8, 12, 16, 30, 50, 150)])
    g.append([J("nested_ifelse", n, v) for n in (5, 20, 50, 150) for v in (6, 9)] + [J("nested_while", n, v) for n in (5, 20, 50, 150) for v in (6, 9)])
    g.append([J("cond_arms", n, 6) for n in (1, 2, 50, 200, 400)])
    g.append([J("many_vars", n, v) for n in (1, 2, 16, 64, 128, 200, 255, 256, 257, 300) for v in (6, 9)])
    g.append([J("many_vars_sum", n, v) for n in (1, 64, 255, 256, 257, 300) for v in (6, 9)])
    g.append([J("many_stores", n, v) for n in (1, 128, 255, 256, 257, 300) for v in (6, 9)])
    g.append([J("many_subs", n, v) for n in (1, 10, 50, 200) for v in (4, 8)] + [J("sub_many_args", n, v) for n in (0, 1, 8, 20, 60) for v in (6, 8)])
    g.append([J("sub_chain", n, v) for n in (1, 10, 50) for v in (6, 8)] + [J("sub_recursive", n, v) for n in (0, 1, 10, 60) for v in (4, 8)])
    g.append([J("sub_odd_names", n, v) for n in range(17) for v in (6, 8)])
    g.append([J("maybe_values", n, 6) for n in (1, 20, 100)] + [J("router_methods", n, v) for n in (0, 1, 5, 20) for v in (6, 8)])
    if thorough:
        g.append([J("long_pop", n, v) for n in (300, 450, 800, 2000, 5000) for v in (2, 4, 8, 10)])
        g.append([J("sub_chain", n, 8, timeout=300) for n in (100, 200)] + [J("many_subs", n, 8, timeout=120) for n in (400, 800)])
        g.append([J("nest_add", n, 6) for n in (2000, 5000)] + [J("seq_if", n, 6) for n in (600, 1000)])
    return g


def summarize_families(ck, run, wres, model):
    """classify every worker result; RecursionErrors are matched against the recursion finding's class predicate"""
    fam = {}
    thresholds = {}
    for r in wres:
        j = r.get("job", {})
        name = j.get("family", j.get("tag", "recipe"))
        o = r.get("outcome")
        key = o if o != "crash" else "crash:" + r.get("exc", "?")
        if o == "pyteal":
            key = "pyteal:" + r.get("exc", "?")
        fam.setdefault(name, {})
        fam[name][key] = fam[name].get(key, 0) + 1
        ck.count(("family", json.dumps(j, sort_keys=True)), nontrivial=(o == "teal"))
        if o == "crash" and r.get("exc") == "RecursionError":
            if recursion_class(r):
                f = ck.match_known(lambda f: f["id"] == "long-program-recursion")
                if f is not None:
                    lo = thresholds.setdefault(name, [10 ** 9, 0])
                    lo[0] = min(lo[0], j.get("n", 10 ** 9))
                    lo[1] = max(lo[1], (r.get("deep") or {}).get("peak_depth", 0))
                    ck.known(f["id"], f["what"])
                    continue
            viol_from_worker(ck, r, "RecursionError that the deep-stack attempt does not explain (deep attempt: %s)" % json.dumps(r.get("deep"))[:200])
        elif o == "crash":
            viol_from_worker(ck, r, "%s: non-PyTeal exception" % r.get("exc"))
        elif o == "timeout":
            f = ck.match_known(lambda f: f["id"] == "if-typeof-exponential" and name == "nested_if")
            if f is not None:
                ck.known(f["id"], f["what"])
            else:
                viol_from_worker(ck, r, "did not finish within %ss (%s phase)" % (j.get("timeout"), r.get("phase")))
        elif o in ("worker-died",):
            viol_from_worker(ck, r, "the interpreter running the compiler died (rc=%s)" % r.get("rc"))
    # the long straight-line family against the model: same outcome below the limit, model accepts beyond it
    mstats = {"compared": 0}
    for r in wres:
        j = r.get("job", {})
        if j.get("family") == "long_pop" and (j["n"] <= 200 or (ck.tier == "thorough" and j["n"] <= 1000)) and r.get("outcome") in ("teal", "crash"):
            n = j["n"]
            prog = "(prog (seq " + " ".join('(op "pop" () n ((op "int" (%d) u ())))' % i for i in range(n)) + ' (exit (op "int" (1) u ()))) (subs ) (slots ))'
            o = wire_opts(j["version"], True, None, None)
            sh = model.ask("(shape %s %s)" % (o, prog))
            d = dict((repr(x[0]), x[1]) for x in sh[1:])
            mstats["compared"] += 1
            if d["depth"] != 2 * n + 2 or d["straight"] != S("true"):
                ck.violation("model depth on the long straight-line family is not 2n+2", {"broken": "walk_depth_long", "job": j, "shape": repr(sh)}, no_failing_input=True)
            deep = r.get("deep") or {}
            if r.get("outcome") == "teal":
                mstats.setdefault("real teal", 0)
                mstats["real teal"] += 1
            elif deep.get("peak_depth"):
                # frames the real compile needed = model depth + 1 (addIncoming frames) + the constant frames around it
                mstats.setdefault("real needs frames - model depth", []).append(deep["peak_depth"] - d["depth"])
    # the 256-slot boundary against the model (n variables stored once each: below the recursion limit)
    for r in wres:
        j = r.get("job", {})
        if j.get("family") == "many_stores" and r.get("outcome") in ("teal", "pyteal", "crash") and \
                (ck.tier == "thorough" or (j["n"] in (255, 256, 257) and (j["version"] == 6 or j["n"] != 255))):
            n = j["n"]
            prog = "(prog (seq " + " ".join('(op "store" ((slot %d)) n ((op "int" (%d) u ())))' % (256 + i, i) for i in range(n)) + \
                ' (exit (op "int" (1) u ()))) (subs ) (slots ' + " ".join("(%d %d false)" % (256 + i, 256 + i) for i in range(n)) + "))"
            mres = model.ask("(compile %s %s)" % (wire_opts(j["version"], True, None, None), prog))
            mc = "teal" if mres[0] == S("ok") else repr(mres[1])
            rc = "teal" if r["outcome"] == "teal" else r.get("exc")
            mstats["slot-boundary compared"] = mstats.get("slot-boundary compared", 0) + 1
            if mc != rc:
                ck.violation("%d scratch variables at version %d: the real compiler answers %s, the model %s (slot limit is 256)" % (n, j["version"], rc, mc),
                             {"kind": "acceptance" if mc == "teal" else "correspondence", "job": j, "result": {k: r[k] for k in r if k != "job"}, "model": mc})
    notrun = sum(1 for r in wres if r.get("outcome") == "not-run")
    if notrun:
        ck.notes.append("%d worker jobs were not run within the wall-clock budget of this tier" % notrun)
    fam["_model_vs_long_family"] = mstats
    fam["_recursion_thresholds (smallest failing n, deepest need)"] = thresholds
    return fam


_worker_viol_seen = {}


def viol_from_worker(ck, r, what):
    j = dict(r.get("job", {}))
    inner = tuple(map(tuple, ((r.get("tb") or {}).get("inner") or [])[-1:]))
    key = (j.get("family", r.get("origin", "recipe")), r.get("outcome"), r.get("exc"), inner)
    _worker_viol_seen[key] = _worker_viol_seen.get(key, 0) + 1
    if _worker_viol_seen[key] > 1:
        return
    payload = {"kind": "crash", "result": {k: r[k] for k in r if k not in ("job", "case")}}
    if "case" in r:
        payload["case"] = r["case"]
    else:
        payload["job"] = j
    ck.violation("real compiler, %s: %s" % (j.get("family", r.get("origin", "generated program")) + ("(n=%s, v%s)" % (j.get("n"), j.get("version")) if "family" in j else ""), what), payload)


def finding_matches_case(f, c, where):
    if f["id"] == "bytes-lone-surrogate":
        return where == "construction" and c.build.get("exc") == "UnicodeEncodeError"
    return False


def api_variants(run, shapes, rng, thorough):
    """Compilation(...).compile(), assembleConstants / assembly_type_track, Router.compile_program"""
    pt, model, ck = run.pt, run.model, run.ck
    stats = {}

    def note(k):
        stats[k] = stats.get(k, 0) + 1
    sample = shapes if thorough else rng.sample(shapes, min(len(shapes), 80))
    for r in sample:
        for v in ((2, 6, 9) if not thorough else range(2, 11)):
            b = Builder(pt)
            rb = real_call(pt, lambda: b.build(r))
            if rb["outcome"] != "ok":
                note("construction:" + rb.get("exc", "timeout"))
                continue
            e = rb["value"]
            mode = pt.Mode.Application
            base = real_call(pt, lambda: pt.compileTeal(e, mode, version=v))
            for label, fn in (
                ("Compilation.compile", lambda: pt.Compilation(e, mode, version=v).compile().teal),
                ("assembleConstants", lambda: pt.compileTeal(e, mode, version=v, assembleConstants=True)),
                ("type_track_off", lambda: pt.compileTeal(e, mode, version=v, assembly_type_track=False)),
                ("Compilation+constants+opt", lambda: pt.Compilation(e, mode, version=v, assemble_constants=True,
                                                                     optimize=pt.OptimizeOptions(scratch_slots=True)).compile().teal),
            ):
                x = real_call(pt, fn)
                ck.count(("api", label, repr(r), v), nontrivial=(x["outcome"] == "ok"))
                note(label + ":" + (x["outcome"] if x["outcome"] != "pyteal" else x["exc"]))
                if x["outcome"] in ("crash", "timeout"):
                    c = C20Case(r, v, True, None, None)
                    c.build = rb
                    c.realx = x
                    run.crashes.append((c, "compile", "api:" + label))
                elif label == "Compilation.compile" and (x["outcome"], x.get("value"), x.get("exc")) != (base["outcome"], base.get("value"), base.get("exc")):
                    note("Compilation.compile differs from compileTeal")
                    c = C20Case(r, v, True, None, None)
                    c.build = rb
                    c.realx = x
                    c.model = None
                    run.mismatch.append(c)
    # routers
    router_crashes = {}
    for name, mk in router_cases(pt):
        big = name.endswith("-20")
        for v in ((5, 6, 7, 8, 9, 10) if (thorough or not big) else (6, 8, 10)):
            for opt in ((None, True) if (thorough or not big) else (None,)):
                def go():
                    r = mk()
                    return r.compile_program(version=v, optimize=(pt.OptimizeOptions(scratch_slots=True) if opt else None))
                x = real_call(pt, go, timeout=30)
                ck.count(("router", name, v, opt), nontrivial=(x["outcome"] == "ok"))
                note("router:" + (x["outcome"] if x["outcome"] != "pyteal" else x["exc"]))
                if x["outcome"] in ("crash", "timeout"):
                    router_crashes.setdefault(x.get("exc", "timeout"), []).append(
                        {"kind": "crash", "router": name, "version": v, "optimize": opt, "result": {k: x[k] for k in x if k != "value"}})
    for exc, lst in router_crashes.items():
        first = dict(lst[0])
        first["same_exception_in"] = [(d["router"], d["version"], d["optimize"]) for d in lst[1:40]]
        ck.violation("Router.compile_program (%s, version %d): %s (%d router configurations in all)" % (first["router"], first["version"], exc, len(lst)), first)
    return stats


def router_cases(pt):
    A = pt.Approve
    yield "empty", lambda: pt.Router("r")
    yield "bare-create", lambda: pt.Router("r", pt.BareCallActions(no_op=pt.OnCompleteAction.create_only(A())))
    yield "bare-all", lambda: pt.Router("r", pt.BareCallActions(no_op=pt.OnCompleteAction.always(A()), opt_in=pt.OnCompleteAction.call_only(A()),
                                                                 clear_state=pt.OnCompleteAction.call_only(A()), delete_application=pt.OnCompleteAction.always(pt.Reject())))

    def with_methods(k, loop_first=False, ret=True):
        def mk():
            r = pt.Router("r", pt.BareCallActions(no_op=pt.OnCompleteAction.create_only(A())))
            for i in range(k):
                args = ", ".join("a%d: abi.Uint64" % j for j in range(i % 18))
                if ret:
                    body = "Seq(While(Txn.fee() < Int(%d)).Do(Pop(Int(1))), output.set(Int(%d)))" % (i, i) if loop_first else "output.set(Int(%d))" % i
                    src = "def m%d(%s%s*, output: abi.Uint64):\n    return %s\n" % (i, args, ", " if args else "", body)
                else:
                    src = "def m%d(%s):\n    return %s\n" % (i, args, "While(Txn.fee() < Int(1)).Do(Pop(Int(1)))" if loop_first else "Pop(Int(%d))" % i)
                ns = {"abi": pt.abi, "Int": pt.Int, "Seq": pt.Seq, "While": pt.While, "Txn": pt.Txn, "Pop": pt.Pop}
                exec(src, ns)
                r.add_method_handler(pt.ABIReturnSubroutine(ns["m%d" % i]))
            return r
        return mk
    for k in (1, 3, 20):
        yield "methods-%d" % k, with_methods(k)
        yield "methods-loopfirst-%d" % k, with_methods(k, loop_first=True)
        yield "void-methods-%d" % k, with_methods(k, ret=False)
        yield "void-loopfirst-%d" % k, with_methods(k, loop_first=True, ret=False)


def complexity_probes(pt):
    """deterministic growth measurements: number of calls of the block comparison while compiling n sequential two-armed
    Ifs after a store/load pair at version 9, and of If.type_of while assembling + compiling n nested one-armed Ifs"""
    out = {}
    Int, Seq, Pop, If, Txn, Approve = pt.Int, pt.Seq, pt.Pop, pt.If, pt.Txn, pt.Approve

    def diamonds(n):
        x = pt.ScratchVar(pt.TealType.uint64)
        return Seq(x.store(Txn.fee()), Pop(x.load()), *[If(Txn.fee() < Int(i)).Then(Pop(Int(i))).Else(Pop(Int(i + 1))) for i in range(n)], Approve())

    def nested(n):
        e = Pop(Int(1))
        for i in range(n):
            e = If(Txn.fee() < Int(i)).Then(e)
        return Seq(e, Approve())
    eq_codes = [pt.TealConditionalBlock.__eq__.__code__, pt.TealSimpleBlock.__eq__.__code__]
    counts = []
    for n in (4, 6, 8, 10):
        with NestMeter(eq_codes) as m:
            r = real_call(pt, lambda: pt.compileTeal(diamonds(n), pt.Mode.Application, version=9), timeout=30)
        counts.append(m.calls if r["outcome"] == "ok" else None)
    out["block __eq__ calls for 4,6,8,10 sequential Ifs (v9)"] = counts
    counts2 = []
    for n in (4, 6, 8, 10):
        with NestMeter([pt.If.type_of.__code__]) as m:
            r = real_call(pt, lambda: pt.compileTeal(nested(n), pt.Mode.Application, version=6), timeout=30)
        counts2.append(m.calls if r["outcome"] == "ok" else None)
    out["If.type_of calls for 4,6,8,10 nested one-armed Ifs"] = counts2

    def exponential(cs):
        return all(c is not None for c in cs) and cs[0] > 0 and all(cs[i + 1] >= 3 * cs[i] for i in range(len(cs) - 1))
    out["eq_exponential"] = exponential(counts)
    out["typeof_exponential"] = exponential(counts2)
    return out


def replay_known(ck, run, pt, wres, cx):
    """every listed finding is replayed on the real code; KNOWN-FINDING is printed only if it still fails"""
    all_findings = [f for f in load_known_findings() if f.get("property") == "C20"]
    seen = {}
    for f in all_findings:
        fid = f["id"]
        w = f.get("witness", {})
        still = None
        detail = ""
        if fid == "long-program-recursion":
            rs = [r for r in wres if r.get("job", {}).get("family") == "long_pop" and r["job"]["n"] == 600 and r["job"]["version"] == 6]
            still = bool(rs) and rs[0].get("outcome") == "crash" and recursion_class(rs[0])
            detail = json.dumps({k: rs[0].get(k) for k in ("outcome", "exc")}) if rs else "not run"
        elif fid == "bytes-lone-surrogate":
            x = real_call(pt, lambda: pt.Bytes("\ud800"))
            still = x["outcome"] == "crash" and x["exc"] == "UnicodeEncodeError"
            detail = x.get("exc", x["outcome"])
        elif fid == "addr-bad-checksum-assemble-crash":
            x = real_call(pt, lambda: pt.compileTeal(pt.Seq(pt.Pop(pt.Addr("A" * 58)), pt.Approve()), pt.Mode.Application, version=6, assembleConstants=True))
            still = x["outcome"] == "crash"
            detail = x.get("exc", x["outcome"])
        elif fid == "tuple-element-store-into-typeerror":
            x = run_abi_case(pt, {"target": "uint64", "source": "string", "entry": "store_tuple_elem"}, 8)
            still = x["outcome"] == "crash"
            detail = x.get("exc", x["outcome"])
        elif fid == "if-typeof-exponential":
            still = bool(cx.get("typeof_exponential"))
            detail = repr(cx.get("If.type_of calls for 4,6,8,10 nested one-armed Ifs"))
        elif fid == "optimizer-eq-exponential":
            still = bool(cx.get("eq_exponential"))
            detail = repr(cx.get("block __eq__ calls for 4,6,8,10 sequential Ifs (v9)"))
        elif "recipe" in w:
            c = C20Case(eval(w["recipe"]), w.get("version", 6), w.get("mode", "app") == "app", w.get("scratch_slots"), w.get("frame_pointers"))
            run_case(pt, run.model, c)
            still = c.build["outcome"] == "crash" or (c.realx is not None and c.realx["outcome"] in ("crash", "timeout"))
            detail = real_class(c) if c.realx is not None else c.build.get("exc", "")
            if still and f.get("status") != "open":
                ck.violation("a finding recorded as %s fails again: %s (%s)" % (f.get("status"), fid, detail), {"kind": "crash", "case": c.describe()})
        seen[fid] = {"status": f.get("status"), "still_fails": still, "observed": detail}
        if still and f.get("status") == "open":
            ck.known(fid, f["what"])
        elif still and f.get("status") != "open" and "recipe" not in w:
            payload = {"kind": "regression", "finding": fid, "observed": detail}
            if "const_spec" in w:
                payload.update({"kind": "crash", "const_spec": w["const_spec"], "version": w.get("version", 6), "mode": w.get("mode", "app"), "api": w.get("api", "compileTeal")})
            elif "family" in w:
                payload["job"] = {"family": w["family"], "n": w["n"], "version": w.get("version", 6)}
            ck.violation("a finding recorded as %s fails again: %s (%s)" % (f.get("status"), fid, detail), payload,
                         no_failing_input=("const_spec" not in w and "family" not in w))
    ck.coverage["known_findings_replayed"] = seen


if __name__ == "__main__":
    sys.exit(run_main(main))
