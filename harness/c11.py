"""C11 — compilation is deterministic and independent of process history (partial: proved state-machine /
renaming core + implementation-side scripted sessions in separate interpreter processes)."""
import concurrent.futures
import json
import os
import random
import subprocess
import sys
import tempfile
import time

from common import *  # noqa

ensure_env()
import c11_gen as G  # noqa: E402

SESSION_PY = os.path.join(VERIF, "harness", "c11_session.py")
HERE_TMP = tempfile.mkdtemp(prefix="c11_")


# --------------------------------------------------------------------------------------------------
# running sessions on the real implementation (fresh interpreter each)
# --------------------------------------------------------------------------------------------------
def run_real(spec, hashseed, timeout=240):
    path = os.path.join(HERE_TMP, "s%d_%d.json" % (os.getpid(), random.getrandbits(48)))
    with open(path, "w") as f:
        json.dump(spec, f)
    env = dict(os.environ, PYTHONPATH=REPO, PYTHONHASHSEED=str(hashseed), PYTHONDONTWRITEBYTECODE="1")
    try:
        p = subprocess.run([PY, SESSION_PY, path], capture_output=True, text=True, env=env, timeout=timeout)
    except subprocess.TimeoutExpired:
        return {"error": "timeout"}
    finally:
        try:
            os.unlink(path)
        except OSError:
            pass
    if p.returncode != 0:
        return {"error": "runner exit %d: %s" % (p.returncode, p.stderr[-1500:])}
    try:
        return json.loads(p.stdout)
    except ValueError:
        return {"error": "unreadable runner output: " + p.stdout[-500:]}


def run_many(jobs):
    """jobs: list of (spec, hashseed) -> list of results, in order, NPROC at a time."""
    with concurrent.futures.ThreadPoolExecutor(max_workers=NPROC) as ex:
        return list(ex.map(lambda j: run_real(j[0], j[1]), jobs))


# --------------------------------------------------------------------------------------------------
# sessions
# --------------------------------------------------------------------------------------------------
def subject_steps(subj, cfg_seq):
    """Definition steps of a subject followed by one compile step per entry of cfg_seq (indices into configs).
    Every compile step carries 'key' = (subject id, configuration) and the running facts the class predicates need."""
    steps = [dict(s) for s in subj["steps_def"]]
    seen_fp = False
    seen_nonfp = False
    fp_first = False
    n_compiles = 0
    n_fp = 0
    for ci in cfg_seq:
        cfg = subj["configs"][ci]
        fp = G.uses_fp(cfg["version"], cfg.get("opt"))
        if subj["kind"] == "prog":
            st = dict({"k": "compile", "p": subj["pid"]}, **cfg)
        else:
            st = dict({"k": "router_compile", "r": subj["rid"]}, **cfg)
        if not fp and not seen_nonfp:
            fp_first = seen_fp
        n_compiles += 1
        st["key"] = [subj["sid"], G.cfg_key(cfg)]
        st["facts"] = {"fp": fp, "fp_first": fp_first if not fp else False, "nth": n_compiles, "nth_fp": n_fp + 1 if fp else 0}
        if fp:
            seen_fp = True
            n_fp += 1
        else:
            seen_nonfp = True
        steps.append(st)
    return steps


def group_of(subj, st):
    """Comparison group of a subject compile step.  ('strict', tag): must be byte-identical to every other observation
    with the same key and tag, in any session.  ('loose', finding): in the class of a known finding; compared, never
    required."""
    f = st["facts"]
    if subj["kind"] == "prog":
        if subj["cls_storeinto_sub"] and not f["fp"]:
            return ("strict", "fp-first" if f["fp_first"] else "scratch-first")
        return ("strict", "")
    # routers
    if not f["fp"] and f["nth"] >= 2 and subj["cls_interleaved"]:
        return ("loose", "store-into-evaluates-and-caches")
    if subj["cls_nested"] and f["fp"]:
        return ("strict", "first-fp" if f["nth_fp"] == 1 else "later-fp")
    return ("strict", "")


def value_of(rec):
    if rec.get("ok"):
        return ["ok", rec.get("teal")]
    return ["exc", rec.get("exc")]


# --------------------------------------------------------------------------------------------------
# model side
# --------------------------------------------------------------------------------------------------
def model_session(model, mode, steps, real, recover):
    """Run the Coq state machine on the session; opaque steps take the observed deltas.  When the real compilation
    failed where the recipe expected none, the failure point is searched among the few the model has (main routine,
    or the lowering of one reachable subroutine).  Returns (mismatch or None, stats)."""
    ctx = G.new_ctx()
    ops = []
    reach = {}
    for i, st in enumerate(steps):
        ops.append(G.model_op(st, ctx))
        if st["k"] == "compile" and st["p"] in ctx["progs"]:
            reach[i] = G.reach(ctx["progs"][st["p"]]["body"], ctx)
    chosen = {}
    tried = {}
    stats = {"opaque": sum(1 for o in ops if o is None), "variants": 0, "late_failures": 0}

    def ask():
        parts = []
        prev = (256, 0, None)
        for i, st in enumerate(steps):
            op = chosen.get(i, ops[i])
            if op is None:
                dl = 0
                if real[i].get("locals") is not None and prev[2] is not None:
                    dl = max(0, real[i]["locals"] - prev[2])
                op = "(opaque %d %d %d)" % (max(0, real[i]["slot"] - prev[0]), max(0, real[i]["sub"] - prev[1]), dl)
            parts.append(op)
            if recover:
                parts.append("(reset-marker)")
            prev = (real[i]["slot"], real[i]["sub"], None if recover else real[i].get("locals"))
        resp = model.ask("(session %s %s)" % (mode, " ".join(parts)))
        if not resp or resp[0] != S("ok"):
            raise RuntimeError("model refused the session: %r" % (resp,))
        preds = resp[1:]
        return preds[0::2] if recover else preds

    while True:
        preds = ask()
        bad = None
        for i, (st, r, p) in enumerate(zip(steps, real, preds)):
            ps, pu, pm, pr = p
            same = ps == r["slot"] and pu == r["sub"] and ((pm != S("none")) == r["marker"]) and \
                (pm == S("none") or r.get("locals") is None or pm[1] == r["locals"])
            must_fail = pr == S("true") or st.get("late") or st.get("expect_fail")
            if same and (not must_fail or not r["ok"]):
                continue
            bad = (i, "counters" if not same else "outcome", [ps, pu, repr(pm), repr(pr)])
            break
        if bad is None:
            stats["late_failures"] = sum(1 for st, r, p in zip(steps, real, preds)
                                         if not r["ok"] and p[3] != S("true") and not st.get("late") and not st.get("expect_fail"))
            return None, stats, preds
        i = bad[0]
        st = steps[i]
        if bad[1] == "counters" and not real[i]["ok"] and st["k"] == "compile" and ops[i] is not None:
            prog = ctx["progs"].get(st["p"])
            calls = " ".join(str(c) for c in G.body_calls(prog["body"])) if prog else ""
            fp = G.b(G.uses_fp(st["version"], st.get("opt")))
            cands = ["(compile (%s) %s true ())" % (calls, fp)] + ["(compile (%s) %s false (%d))" % (calls, fp, h) for h in reach.get(i, [])]
            k = tried.get(i, 0)
            if k < len(cands):
                tried[i] = k + 1
                chosen[i] = cands[k]
                stats["variants"] += 1
                continue
        return {"step": i, "what": bad[1], "model": bad[2], "real": {k: real[i].get(k) for k in ("slot", "sub", "marker", "locals", "ok", "exc", "msg")},
                "op": chosen.get(i, ops[i]), "kind": st["k"]}, stats, preds


# --------------------------------------------------------------------------------------------------
# in-process correspondence of the id-usage functions (sorted by id) and renaming on the real code
# --------------------------------------------------------------------------------------------------
def real_assign(objs):
    """objs: [(id, reserved)] -> list of assigned numbers, or ('exc', class)."""
    import pyteal as pt
    from pyteal.ir import TealSimpleBlock, TealOp, Op
    from pyteal.compiler.scratchslots import assignScratchSlotsToSubroutines
    slots = []
    for i, res in objs:
        if res:
            s = pt.ScratchSlot(i)
        else:
            s = pt.ScratchSlot()
            s.id = i
        slots.append(s)
    half = len(slots) // 2
    b1 = TealSimpleBlock([TealOp(None, Op.store, s) for s in slots[:half]])
    b2 = TealSimpleBlock([TealOp(None, Op.store, s) for s in slots[half:]])
    r = call_real(assignScratchSlotsToSubroutines, {None: b1, "other": b2})
    if r[0] != "ok":
        return ("exc", r[1], r[2])
    return [op.args[0] for op in b1.ops + b2.ops]


def check_id_usage(ck, model, thorough):
    import pyteal as pt
    rng = ck.rng
    mism = []
    # ---- assign_slots ----
    n_cases = 400 if thorough else 120
    for case in range(n_cases):
        n = rng.choice([0, 1, 2, 3, 5, 8, 13, 40]) if case % 9 else rng.choice([255, 256, 257])
        style = rng.choice(["auto", "mixed", "mixed", "dupres", "lowauto"])
        objs = []
        used_auto = set()
        used_res = set()
        for _ in range(n):
            if style in ("mixed", "dupres", "lowauto") and rng.random() < 0.35 and len(used_res) < 250:
                i = rng.randrange(256)
                if style != "dupres":
                    while i in used_res:
                        i = rng.randrange(256)
                used_res.add(i)
                objs.append((i, True))
            else:
                i = rng.randrange(0 if style == "lowauto" else 256, 5000)
                while i in used_auto or (style == "lowauto" and i in used_res):
                    i = rng.randrange(256, 100000)
                used_auto.add(i)
                objs.append((i, False))
        if style == "lowauto":
            # automatic ids below 256 (after reset_slot_numbering(0)): avoid ties with reserved ids
            objs = [(i, res) for (i, res) in objs if res or i not in used_res]
        real = real_assign(objs)
        m = model.ask("(assign %s)" % " ".join("(%d %d %s)" % (k, i, G.b(res)) for k, (i, res) in enumerate(objs)))
        ck.count(("assign", tuple(objs)), nontrivial=len(objs) > 1)
        if m[0] == S("ok"):
            md = {p[0]: p[1] for p in m[1:]}
            mv = [md.get(k) for k in range(len(objs))]
        else:
            mv = ("exc", "TealInternalError")
        rv = real if not (isinstance(real, tuple)) else ("exc", real[1])
        if mv != rv:
            mism.append({"fn": "assignScratchSlotsToSubroutines", "objs": objs, "real": real, "model": repr(m)})
            continue
        # renaming on the real code: any strictly monotone map of the automatic ids
        if not isinstance(real, tuple) and objs:
            a, c = rng.randrange(1, 5), rng.randrange(0, 10**6)
            ren = [(i, res) if res else (a * i + c, res) for (i, res) in objs]
            real2 = real_assign(ren)
            ck.count(("assign-rename", tuple(ren)), nontrivial=len(objs) > 1)
            if real2 != real:
                mism.append({"fn": "assignScratchSlotsToSubroutines/rename", "objs": objs, "renamed": ren, "real": real, "real_renamed": real2})
    # ---- resolveSubroutines ----
    from pyteal.compiler.subroutines import resolveSubroutines
    pool = []
    for k in range(12):
        @pt.Subroutine(pt.TealType.none, name="r%d" % k)
        def _f():
            return pt.Pop(pt.Int(1))
        pool.append(_f.subroutine)
    for case in range(120 if thorough else 40):
        n = rng.randint(0, 12)
        subs = rng.sample(pool, n)
        ids = rng.sample(range(100000), n)
        for sd, i in zip(subs, ids):
            sd.id = i
        order = list(subs)
        rng.shuffle(order)
        mapping = {None: []}
        for sd in order:
            mapping[sd] = []
        r = call_real(resolveSubroutines, mapping)
        m = model.ask("(resolve %s)" % " ".join("(%d %d)" % (k, sd.id) for k, sd in enumerate(order)))
        ck.count(("resolve", tuple(sd.id for sd in order)), nontrivial=n > 1)
        real_idx = None
        if r[0] == "ok":
            real_idx = {k: int(r[1][sd].rsplit("_", 1)[1]) for k, sd in enumerate(order)}
        model_idx = {p[0]: p[1] for p in m[1:]} if m[0] == S("ok") else None
        if real_idx != model_idx:
            mism.append({"fn": "resolveSubroutines", "ids": [sd.id for sd in order], "real": repr(r)[:300], "model": repr(m)[:300]})
    # ---- compile order (compileSubroutine) observed through the slot numbers of the output ----
    for case in range(60 if thorough else 24):
        n = rng.randint(1, 7)
        calls = {k: sorted(rng.sample(range(n), rng.randint(0, min(3, n)))) for k in range(n)}
        roots = sorted(rng.sample(range(n), rng.randint(1, n)))
        ws = [None] * n

        def mk(k):
            def body(x):
                return pt.Seq(*[pt.Pop(ws[c](x)) for c in calls[k]], x + pt.Int(k))
            body.__name__ = "o%d" % k
            return pt.Subroutine(pt.TealType.uint64)(body)
        for k in range(n):
            ws[k] = mk(k)
        ids = rng.sample(range(10**6), n)
        for k in range(n):
            ws[k].subroutine.id = ids[k]
        prog = pt.Seq(*[pt.Pop(ws[k](pt.Int(1))) for k in roots], pt.Approve())
        r = call_real(pt.compileTeal, prog, pt.Mode.Application, version=6)
        ck.count(("order", n, tuple(sorted(calls.items())), tuple(roots), tuple(ids)), nontrivial=n > 1)
        m = model.ask("(order 99 (99 0 (%s)) %s)" % (" ".join(str(k) for k in roots),
                                                      " ".join("(%d %d (%s))" % (k, ids[k], " ".join(str(c) for c in calls[k])) for k in range(n))))
        model_order = [x for x in m[1:] if x != 99]
        real_order = None
        if r[0] == "ok":
            lines = r[1].split("\n")
            slot_of = {}
            for j, ln in enumerate(lines):
                if ln.endswith(":") and ln.startswith("o") and "_" in ln and j + 1 < len(lines) and lines[j + 1].startswith("store "):
                    slot_of[int(ln[1:ln.index("_")])] = int(lines[j + 1].split()[1])
            real_order = [k for k, _ in sorted(slot_of.items(), key=lambda kv: kv[1])]
        if real_order != model_order:
            mism.append({"fn": "compileSubroutine order", "calls": calls, "roots": roots, "ids": ids, "real": real_order, "model": model_order,
                         "exc": r[1:] if r[0] != "ok" else None})
        # the same program under another strictly monotone numbering of the subroutine ids: same TEAL
        if r[0] == "ok":
            for k in range(n):
                ws[k].subroutine.id = 3 * ids[k] + 17
            r2 = call_real(pt.compileTeal, prog, pt.Mode.Application, version=6)
            ck.count(("order-rename", n, tuple(ids)), nontrivial=n > 1)
            if r2[0] != "ok" or r2[1] != r[1]:
                mism.append({"fn": "compileTeal under renumbered subroutine ids", "calls": calls, "roots": roots, "ids": ids})
    return mism


# --------------------------------------------------------------------------------------------------
# known findings: minimal sessions replayed against the real code on every run
# --------------------------------------------------------------------------------------------------
def _sub(name, kind, ret, args, decls, stmts, retexpr=None):
    body = {"decls": decls, "stmts": stmts}
    if retexpr is not None:
        body["ret"] = retexpr
    return {"kind": kind, "ret": ret, "args": args, "name": name, "body": body}


def finding_sessions():
    """id -> (list of (spec, label), judge(results) -> (still_fails: bool, details))."""
    subj_main = {"decls": [{"d": "abi", "t": "uint64"}], "stmts": [["aset", 0, ["int", 7]], ["pop", ["aget", 0]]]}
    bad = _sub("kf_bad", "sub", "uint64", ["val"], [{"d": "raise"}], [], ["int", 1])
    hist_main = {"decls": [], "stmts": [["pop", ["call", 901, [["v", ["int", 1]]]]]]}
    f1_fresh = {"recover": False, "steps": [{"k": "build", "p": 1, "mode": "app", "body": subj_main}, {"k": "compile", "p": 1, "version": 8}]}
    f1_after = {"recover": False, "steps": [{"k": "defsub", "h": 901, "sub": bad}, {"k": "build", "p": 2, "mode": "app", "body": hist_main},
                                            {"k": "compile", "p": 2, "version": 8},
                                            {"k": "build", "p": 1, "mode": "app", "body": subj_main}, {"k": "compile", "p": 1, "version": 8}]}

    def judge_f1(res):
        fresh, after = res
        stuck = after["steps"][2]["marker"]
        differs = value_of(fresh["steps"][-1]) != value_of(after["steps"][-1])
        return (stuck or differs), {"marker_set_after_failed_compile": stuck, "unrelated_program_differs": differs,
                                    "fresh": value_of(fresh["steps"][-1]), "after": value_of(after["steps"][-1])}

    m_echo = _sub("kf_echo", "abi", "out", ["abi"], [], [], ["abiarg", 0])
    m_add = _sub("kf_add", "abi", "out", ["abi", "abi"], [], [], ["bin", "+", ["abiarg", 0], ["abiarg", 1]])
    f2a = {"recover": False, "steps": [{"k": "router_new", "r": 1, "name": "kf", "bare": "approve"},
                                       {"k": "router_method", "r": 1, "h": 911, "sub": m_echo}, {"k": "router_method", "r": 1, "h": 912, "sub": m_add},
                                       {"k": "router_compile", "r": 1, "version": 6}, {"k": "router_compile", "r": 1, "version": 6}]}

    def judge_f2a(res):
        s = res[0]["steps"]
        return value_of(s[3]) != value_of(s[4]), {"first": value_of(s[3]), "second": value_of(s[4])}

    f = _sub("kf_f", "abi", "out", ["abi"], [], [], ["bin", "+", ["abiarg", 0], ["int", 1]])
    g = _sub("kf_g", "sub", "uint64", ["val"],
             [{"d": "var", "t": "u"}, {"d": "abi", "t": "uint64"}, {"d": "abi", "t": "uint64"}, {"d": "storeinto", "h": 921, "args": [["a", 0]], "into": 1}, {"d": "var", "t": "u"}],
             [["store", 0, ["arg", 0]], ["aset", 0, ["load", 0]], ["pre", 0], ["store", 1, ["aget", 1]]], ["bin", "+", ["load", 1], ["load", 0]])
    main2 = {"decls": [], "stmts": [["pop", ["call", 922, [["v", ["int", 3]]]]]]}
    defs = [{"k": "defsub", "h": 921, "sub": f}, {"k": "defsub", "h": 922, "sub": g}, {"k": "build", "p": 1, "mode": "app", "body": main2}]
    f2b_fresh = {"recover": False, "steps": defs + [{"k": "compile", "p": 1, "version": 6}]}
    f2b_after = {"recover": False, "steps": defs + [{"k": "compile", "p": 1, "version": 8}, {"k": "compile", "p": 1, "version": 6}]}

    def judge_f2b(res):
        return value_of(res[0]["steps"][-1]) != value_of(res[1]["steps"][-1]), {"v6_fresh": value_of(res[0]["steps"][-1]), "v6_after_v8": value_of(res[1]["steps"][-1])}

    nested = _sub("kf_helper", "sub", "uint64", ["val"], [], [], ["bin", "+", ["arg", 0], ["int", 1]])
    m_n = _sub("kf_m", "abi", "out", ["abi"], [{"d": "nested", "sub": nested}], [], ["callnested", 0, [["v", ["abiarg", 0]]]])
    f3 = {"recover": False, "steps": [{"k": "router_new", "r": 1, "name": "kf", "bare": "approve"}, {"k": "router_method", "r": 1, "h": 931, "sub": m_n},
                                      {"k": "router_compile", "r": 1, "version": 8}, {"k": "router_compile", "r": 1, "version": 8}]}

    def judge_f3(res):
        s = res[0]["steps"]
        return value_of(s[2]) != value_of(s[3]), {"first": value_of(s[2]), "second": value_of(s[3])}

    return {
        "marker-stuck-after-raising-body": ([f1_fresh, f1_after], judge_f1),
        "store-into-evaluates-and-caches/router-recompile": ([f2a], judge_f2a),
        "store-into-evaluates-and-caches/option-order": ([f2b_fresh, f2b_after], judge_f2b),
        "router-recompile-caster-ids": ([f3], judge_f3),
    }


KNOWN_TEXT = {
    "marker-stuck-after-raising-body":
        "after a subroutine body raises during frame-pointer evaluation SubroutineEval._current_proto stays set (no try/finally in "
        "_frame_pointer_context); an unrelated main-routine abi.Uint64() then compiles to frame_bury/frame_dig instead of store/load",
    "store-into-evaluates-and-caches":
        "ReturnedValue.store_into evaluates and caches the callee's scratch declaration while an expression is being BUILT: a second "
        "Router.compile_program (version < 8, a value-returning method followed by another method) and compileTeal at version 6 after version 8 "
        "(store_into inside a subroutine body) number the scratch slots differently from a fresh process",
    "router-recompile-caster-ids":
        "Router.compile_program creates new caster subroutines on every frame-pointer build; a subroutine first defined while a method body is "
        "evaluated sorts after them in the first compilation and before them in later ones, so label indices and subroutine order change",
}


# --------------------------------------------------------------------------------------------------
def build_corpus(rng, thorough):
    g = G.Gen(rng, handle_base=1)
    subjects = []
    reps = 3 if thorough else 1
    for rep in range(reps + 1):
        for fl in G.PROG_FLAVOURS:
            if rep == reps and fl in ("flat_old", "maybe", "probe", "nested", "tmpl"):
                continue
            subjects.append(g.program(fl))
    for rep in range(reps):
        for fl in G.ROUTER_FLAVOURS:
            subjects.append(g.router(fl))
    subjects.append(g.router("router_plain"))
    subjects.append(g.router("router_failfirst"))
    for sid, s in enumerate(subjects):
        s["sid"] = sid
        recs = [rec for _, rec in s["subs"]]
        s["cls_storeinto_sub"] = G.has_storeinto_in_sub(recs)
        s["cls_nested"] = any(G.sub_has_nested(rec) for rec in recs)
        # subroutines other than the methods whose scratch declaration is evaluated only at compile time: helpers, bare-call
        # handlers, and subroutines defined inside a method body
        others = [x for x in s["subs"] if x not in s.get("methods", [])] + (["nested"] if s["cls_nested"] else [])
        s["cls_interleaved"] = s["kind"] == "router" and G.router_interleaved(s["methods"], others)
    return subjects, g


def history_item(hg, rng):
    """Preceding activity: a failing program of some class, or another healthy program / router compiled at some configuration."""
    x = rng.random()
    if x < 0.6:
        return {"what": "fail:" + (cls := rng.choice(G.FAIL_CLASSES)), "steps": hg.failing(cls)}
    if x < 0.85:
        it = hg.program(rng.choice(G.PROG_FLAVOURS))
        steps = list(it["steps_def"])
        for c in rng.sample(it["configs"], rng.randint(1, len(it["configs"]))):
            steps.append(dict({"k": "compile", "p": it["pid"]}, **c))
        return {"what": "prog:" + it["flavour"], "steps": steps}
    it = hg.router(rng.choice(G.ROUTER_FLAVOURS))
    steps = list(it["steps_def"])
    for c in rng.sample(it["configs"], rng.randint(1, len(it["configs"]))):
        steps.append(dict({"k": "router_compile", "r": it["rid"]}, **c))
    return {"what": "router:" + it["flavour"], "steps": steps}


def make_session(kind, idx, subjects, rng, hashseed, recover=True, history=True):
    """A session = list of items; an item = {'what', 'steps', 'sid'?}."""
    hg = G.Gen(rng, handle_base=100000 + idx * 2000)
    hg.next_prog = 100000 + idx * 2000
    hg.next_router = 100000 + idx * 2000
    items = []
    order = list(subjects)
    rng.shuffle(order)
    for s in order:
        if history:
            for _ in range(rng.choice([0, 0, 1, 1, 2])):
                items.append(history_item(hg, rng))
        ncfg = len(s["configs"])
        seq = []
        perm = list(range(ncfg))
        rng.shuffle(perm)
        for ci in perm:
            seq += [ci] * rng.choice([1, 1, 2, 3])
        if rng.random() < 0.5:
            seq.append(perm[0])            # come back to the first configuration at the end
        items.append({"what": "subject:%d:%s" % (s["sid"], s["flavour"]), "sid": s["sid"], "steps": subject_steps(s, seq)})
    return {"kind": kind, "idx": idx, "hashseed": hashseed, "recover": recover, "items": items}


def fresh_sessions(subjects):
    """One fresh process per (subject, configuration): the reference values."""
    out = []
    for s in subjects:
        for ci in range(len(s["configs"])):
            out.append({"kind": "fresh", "idx": -1, "hashseed": 0, "recover": True,
                        "items": [{"what": "subject:%d:%s" % (s["sid"], s["flavour"]), "sid": s["sid"], "steps": subject_steps(s, [ci])}]})
    return out


def spec_of(session):
    steps = [st for it in session["items"] for st in it["steps"]]
    return {"recover": session["recover"], "steps": steps}


def session_summary(session):
    return {"kind": session["kind"], "hashseed": session["hashseed"], "recover": session["recover"],
            "items": [it["what"] for it in session["items"]]}


# --------------------------------------------------------------------------------------------------
def shrink(session, still_differs, budget_s=30):
    """Greedy removal of items (never the item that holds the differing compile)."""
    t0 = time.time()
    items = list(session["items"])
    chunk = max(1, len(items) // 2)
    while chunk >= 1 and time.time() - t0 < budget_s:
        i = 0
        changed = False
        while i < len(items) and time.time() - t0 < budget_s:
            cand = items[:i] + items[i + chunk:]
            if len(cand) < len(items) and still_differs(dict(session, items=cand)):
                items = cand
                changed = True
            else:
                i += chunk
        if not changed:
            chunk //= 2
    return dict(session, items=items)


PROBE_PY = os.path.join(VERIF, "harness", "c11_probe.py")


PROBE_ROUNDS = {"quick": 40, "thorough": 96}


def run_probe(vseed, hashseed, names=(), rounds=40):
    env = dict(os.environ, PYTHONPATH=REPO, PYTHONHASHSEED=str(hashseed), PYTHONDONTWRITEBYTECODE="1")
    try:
        p = subprocess.run([PY, PROBE_PY, str(vseed), str(rounds)] + list(names), capture_output=True, text=True, env=env, timeout=240)
    except subprocess.TimeoutExpired:
        return {"error": "timeout"}
    if p.returncode != 0:
        return {"error": "probe exit %d: %s" % (p.returncode, p.stderr[-1200:])}
    try:
        return json.loads(p.stdout)
    except ValueError:
        return {"error": "unreadable probe output"}


def run_probe_fresh(vseed, name, label, hashseed=0):
    env = dict(os.environ, PYTHONPATH=REPO, PYTHONHASHSEED=str(hashseed), PYTHONDONTWRITEBYTECODE="1")
    try:
        p = subprocess.run([PY, PROBE_PY, str(vseed), "fresh", name, label], capture_output=True, text=True, env=env, timeout=120)
        return json.loads(p.stdout) if p.returncode == 0 else {"error": p.stderr[-800:]}
    except (subprocess.TimeoutExpired, ValueError) as e:
        return {"error": repr(e)}


def hashseed_probe(ck, seeds):
    """Directed programs (harness/c11_probe.py), each child interpreter under another PYTHONHASHSEED; byte identity."""
    vseed = ck.seed
    rounds = PROBE_ROUNDS[ck.tier]
    with concurrent.futures.ThreadPoolExecutor(max_workers=NPROC) as ex:
        outs = list(ex.map(lambda hs: run_probe(vseed, hs, rounds=rounds), seeds))
    base = outs[0]
    found = []
    if "error" in base:
        ck.violation("hash-seed probe could not run: " + base["error"], {"kind": "probe-error", "error": base["error"]}, no_failing_input=True)
        return found, 0
    n = 0
    # within one interpreter: the same object compiled again, the same source rebuilt with unrelated allocations in between
    for hs, o in zip(seeds, outs):
        if "error" in o:
            continue
        for name, v in o.items():
            extra = v[2] if len(v) > 2 else {}
            if extra.get("recompile_differs") and not any(f["program"] == name for f in found):
                d = extra["recompile_differs"]
                found.append({"kind": "recompile-differs", "program": name, "variant_seed": vseed, "hashseed": hs, "rounds": rounds,
                              "what_differs": "compilation #%d and #%d of the SAME object at %s" % (d["attempt_first"], d["attempt_later"], d["config"]),
                              "first": d["first"], "later": d["later"], "sequence": d["sequence"]})
            if extra.get("variants", 1) > 1 and not any(f["program"] == name for f in found):
                found.append({"kind": "rebuild-differs", "program": name, "variant_seed": vseed, "hashseed": hs, "rounds": rounds,
                              "what_differs": "the same source built %d times in one process with unrelated allocations in between gave %d different TEAL texts (builds %s)" % (
                                  rounds, extra["variants"], extra.get("rounds")),
                              "first": [v[0], v[1]], "later": extra.get("other")})
            if extra:
                n += 1
                ck.count(("probe-inprocess", name, hs))
    # every attempt of the recompile programs against a FRESH object compiled once at that configuration in a fresh interpreter
    pairs = []
    for name, v in base.items():
        if name.startswith("recompile_") and v[0] == "ok":
            for label in sorted(set(a[0] for a in json.loads(v[1]))):
                pairs.append((name, label))
    with concurrent.futures.ThreadPoolExecutor(max_workers=NPROC) as ex:
        fresh = dict(zip(pairs, ex.map(lambda nl: run_probe_fresh(vseed, nl[0], nl[1]), pairs)))
    for hs, o in zip(seeds, outs):
        if "error" in o:
            continue
        for name, v in o.items():
            if not name.startswith("recompile_") or v[0] != "ok" or any(f["program"] == name for f in found):
                continue
            att = json.loads(v[1])
            for k, (label, val) in enumerate(att):
                fr = fresh.get((name, label))
                if fr is None or isinstance(fr, dict):
                    continue
                n += 1
                ck.count(("probe-vs-fresh", name, label, k, hs))
                if val != fr:
                    found.append({"kind": "recompile-differs", "program": name, "variant_seed": vseed, "hashseed": hs, "rounds": rounds,
                                  "what_differs": "compilation #%d of one object (order %s) at %s differs from a fresh object compiled once at %s in a fresh interpreter" % (
                                      k + 1, " ".join(a[0] for a in att[:k + 1]), label, label),
                                  "first": fr, "later": val, "sequence": [a[0] for a in att], "attempt": k, "label": label})
                    break
    bad_fresh = [(nl, fr["error"]) for nl, fr in fresh.items() if isinstance(fr, dict)]
    if bad_fresh:
        ck.violation("fresh reference of a recompile program could not run: %r" % (bad_fresh[0],), {"kind": "probe-error", "error": repr(bad_fresh[:3])}, no_failing_input=True)
    for hs, o in zip(seeds[1:], outs[1:]):
        if "error" in o:
            ck.violation("hash-seed probe could not run under PYTHONHASHSEED=%s: %s" % (hs, o["error"]), {"kind": "probe-error", "error": o["error"]}, no_failing_input=True)
            continue
        for name in base:
            n += 1
            ck.count(("probe", name, hs))
            if (o.get(name) or [None, None])[:2] != base[name][:2] and not any(f["program"] == name for f in found):
                found.append({"kind": "hashseed-differs", "program": name, "variant_seed": vseed, "hashseed_a": seeds[0], "hashseed_b": hs,
                              "teal_a": base[name][:2], "teal_b": (o.get(name) or [None, None])[:2]})
    return found, n


def run_probe_seq(vseed, names, hashseed=0):
    env = dict(os.environ, PYTHONPATH=REPO, PYTHONHASHSEED=str(hashseed), PYTHONDONTWRITEBYTECODE="1")
    try:
        p = subprocess.run([PY, PROBE_PY, str(vseed), "seq"] + list(names), capture_output=True, text=True, env=env, timeout=240)
        return json.loads(p.stdout) if p.returncode == 0 else {"error": p.stderr[-800:]}
    except (subprocess.TimeoutExpired, ValueError) as e:
        return {"error": repr(e)}


def history_order_probe(ck, seeds):
    """Independent little programs (harness/c11_probe.py, family HS: textually colliding constants of different pseudo-op kinds
    under assembleConstants, compilations that fail inside a loop body / a subroutine body / late, programs a fresh process
    REJECTS, healthy ones) built and compiled in one interpreter in several orders (a permutation and its reverse per hash
    seed, so that every ordered pair occurs); every outcome — TEAL text or error class — must equal the program's outcome
    alone in a fresh interpreter.  A difference is narrowed to a two-program history when one predecessor suffices."""
    vseed = ck.seed
    env = dict(os.environ, PYTHONPATH=REPO, PYTHONHASHSEED="0", PYTHONDONTWRITEBYTECODE="1")
    p = subprocess.run([PY, PROBE_PY, str(vseed), "names"], capture_output=True, text=True, env=env, timeout=120)
    if p.returncode != 0:
        ck.violation("history-order probe could not run: " + p.stderr[-600:], {"kind": "probe-error", "error": p.stderr[-600:]}, no_failing_input=True)
        return [], 0
    names = json.loads(p.stdout)
    orders = []
    for k, hs in enumerate(seeds):
        perm = list(names)
        random.Random(vseed * 1009 + k).shuffle(perm)
        orders += [(perm, hs), (perm[::-1], hs)]
    with concurrent.futures.ThreadPoolExecutor(max_workers=NPROC) as ex:
        fresh = dict(zip(names, ex.map(lambda nm: run_probe_seq(vseed, [nm]), names)))
        runs = list(ex.map(lambda o: run_probe_seq(vseed, o[0], o[1]), orders))
    found, n = [], 0
    for nm, fr in fresh.items():
        if isinstance(fr, dict):
            ck.violation("history-order probe: fresh run of %s failed: %s" % (nm, fr["error"]), {"kind": "probe-error", "error": fr["error"]}, no_failing_input=True)
            return [], 0
    for (order, hs), res in zip(orders, runs):
        if isinstance(res, dict):
            ck.violation("history-order probe could not run: " + res["error"], {"kind": "probe-error", "error": res["error"]}, no_failing_input=True)
            continue
        for k, (nm, val) in enumerate(res):
            n += 1
            ck.count(("history-order", nm, tuple(order[:k]), hs))
            if val != fresh[nm][0][1] and not any(f["program"] == nm for f in found):
                found.append({"kind": "history-differs", "program": nm, "variant_seed": vseed, "hashseed": hs, "history": order[:k],
                              "fresh": fresh[nm][0][1], "after_history": val})
    # narrow each difference to one predecessor when possible
    for f in found[:4]:
        preds = f["history"]
        with concurrent.futures.ThreadPoolExecutor(max_workers=NPROC) as ex:
            pair = list(ex.map(lambda x: run_probe_seq(vseed, [x, f["program"]], f["hashseed"]), preds))
        for x, res in zip(preds, pair):
            if not isinstance(res, dict) and res[1][1] != f["fresh"]:
                f["history"] = [x]
                f["after_history"] = res[1][1]
                break
    return found, n


def _prefix_facts(prefix, kind, ident):
    """What the class predicates of the known findings need to know about a hypothetical further compile of an object."""
    methods, subs, earlier, earlier_fp = [], [], 0, 0
    for st in prefix:
        if st["k"] == "router_method" and kind == "r" and st["r"] == ident:
            methods.append((st["h"], st["sub"]))
        if st["k"] in ("defsub", "router_method"):
            subs.append(st["sub"])
        if (st["k"] == "router_compile" and kind == "r" and st["r"] == ident) or (st["k"] == "compile" and kind == "p" and st["p"] == ident):
            earlier += 1
            if G.uses_fp(st["version"], st.get("opt")):
                earlier_fp += 1
    return methods, subs, earlier, earlier_fp


def search_witness(breaks, limit=6):
    """The state machine no longer describes the implementation at some step.  Look for a program that shows it: take the
    object (router / program) of the diverging step, compile it once more at a few configurations (a) at the end of the
    session prefix that led there and (b) after the same definitions with no compilation at all, each in a fresh interpreter."""
    jobs, meta = [], []
    cfgs = [{"version": 7}, {"version": 6}, {"version": 8, "opt": {"frame_pointers": False}}, {"version": 8}]
    for br in breaks[:limit]:
        if "spec" not in br or br.get("step") is None:
            continue
        steps = br["spec"]["steps"]
        i = br["step"]
        tgt = None
        for j in range(i, max(-1, i - 4), -1):
            st = steps[j]
            if st["k"] in ("router_compile", "router_method", "router_new"):
                tgt = ("r", st["r"])
                break
            if st["k"] in ("compile", "build") and "p" in st:
                tgt = ("p", st["p"])
                break
        if tgt is None:
            continue
        prefix = [{k: v for k, v in st.items() if k not in ("key", "facts")} for st in steps[:i + 1]]
        defs = [st for st in prefix if st["k"] in ("defsub", "router_new", "router_method", "build")]
        methods, subs, earlier, earlier_fp = _prefix_facts(prefix, tgt[0], tgt[1])
        for cfg in cfgs:
            fp = G.uses_fp(cfg["version"], cfg.get("opt"))
            # stay out of the classes of the known findings
            if tgt[0] == "r" and not fp and earlier and G.router_interleaved(methods, ["?"] if any(G.body_calls(s["body"]) or G.sub_has_nested(s) for _, s in methods) else []):
                continue
            if tgt[0] == "r" and fp and earlier_fp and any(G.sub_has_nested(s) for _, s in methods):
                continue
            if tgt[0] == "p" and not fp and earlier_fp and G.has_storeinto_in_sub(subs):
                continue
            last = dict({"k": "router_compile", "r": tgt[1]} if tgt[0] == "r" else {"k": "compile", "p": tgt[1]}, **cfg)
            a = {"recover": br["spec"].get("recover", True), "steps": prefix + [last]}
            b = {"recover": True, "steps": defs + [last]}
            jobs += [(a, br.get("hashseed", 0)), (b, 0)]
            meta.append((br, tgt, cfg, a, b))
    # directed scenarios for the kind of step that diverged: the same object compiled unsuccessfully, then successfully
    if breaks:
        br = breaks[0]
        cg = G.Gen(random.Random(br.get("step", 0)), handle_base=900000)
        cg.next_prog = cg.next_router = 900000
        for cls in ["router_fail_then_ok"] * 3 + ["prog_fail_then_ok"] * 2:
            st = cg.failing(cls)
            defs = [x for x in st if x["k"] in ("defsub", "router_new", "router_method", "build")]
            comp = [x for x in st if x["k"] in ("compile", "router_compile")]
            fail = [x for x in comp if x["version"] < 7][:1]
            good = [x for x in comp if x["version"] == 7][:1]
            if not fail or not good:
                continue
            a = {"recover": True, "steps": defs + fail + good}
            b = {"recover": True, "steps": defs + good}
            jobs += [(a, 0), (b, 0)]
            tgt = ("r", good[0]["r"]) if "r" in good[0] else ("p", good[0]["p"])
            meta.append((dict(br, kind="directed " + cls), tgt, {"version": 7}, a, b))
    res = run_many(jobs)
    out = []
    for k, (br, tgt, cfg, a, b) in enumerate(meta):
        ra, rb = res[2 * k], res[2 * k + 1]
        if "error" in ra or "error" in rb:
            continue
        va, vb = value_of(ra["steps"][-1]), value_of(rb["steps"][-1])
        if va != vb and vb[0] == "ok":
            out.append({"kind": "teal-differs", "found_by": "witness search after the state machine diverged at step %d (%s)" % (br["step"], br.get("kind")),
                        "target": list(tgt), "config": cfg, "spec": a, "hashseed": br.get("hashseed", 0), "step": len(a["steps"]) - 1,
                        "reference_spec": b, "reference_hashseed": 0, "reference_step": len(b["steps"]) - 1,
                        "expected": vb, "observed": va, "history": [(st["k"], st.get("version"), st.get("opt")) for st in a["steps"][-12:]]})
    return out, len(meta)


def replay(path):
    rp = json.load(open(path))
    if rp.get("kind") in ("recompile-differs", "rebuild-differs"):
        o = run_probe(rp["variant_seed"], rp["hashseed"], [rp["program"]], rounds=rp.get("rounds", 40))
        v = o.get(rp["program"]) or ["?", "", {}]
        extra = v[2] if len(v) > 2 else {}
        print(rp["program"], "under PYTHONHASHSEED=%s:" % rp["hashseed"], {k: (x if k != "other" else "...") for k, x in extra.items()} or "no difference any more")
        if extra.get("recompile_differs") or extra.get("variants", 1) > 1:
            print("VIOLATION property=C11 replay=%s" % path)
            return 1
        if rp.get("label") is not None and v[0] == "ok":
            fr = run_probe_fresh(rp["variant_seed"], rp["program"], rp["label"])
            val = json.loads(v[1])[rp["attempt"]][1]
            print("attempt #%d at %s:" % (rp["attempt"] + 1, rp["label"]), val[0], (val[1] or "")[:160].replace("\n", " | "))
            print("fresh object      :", fr[0], (fr[1] or "")[:160].replace("\n", " | "))
            if val != fr:
                print("VIOLATION property=C11 replay=%s" % path)
                return 1
        return 0
    if rp.get("kind") == "history-differs":
        a = run_probe_seq(rp["variant_seed"], [rp["program"]])
        b = run_probe_seq(rp["variant_seed"], rp["history"] + [rp["program"]], rp["hashseed"])
        va, vb = a[0][1], b[-1][1]
        print("fresh interpreter      :", va[0], (va[1] or "")[:200].replace("\n", " | "))
        print("after %-17s:" % (rp["history"][-2:],), vb[0], (vb[1] or "")[:200].replace("\n", " | "))
        if va != vb:
            print("VIOLATION property=C11 replay=%s" % path)
            return 1
        print("no difference any more")
        return 0
    if rp.get("kind") == "hashseed-differs":
        a = run_probe(rp["variant_seed"], rp["hashseed_a"], [rp["program"]])
        b = run_probe(rp["variant_seed"], rp["hashseed_b"], [rp["program"]])
        va, vb = a.get(rp["program"]), b.get(rp["program"])
        print("PYTHONHASHSEED=%s:" % rp["hashseed_a"], (va or ["?", ""])[0], ((va or ["", ""])[1] or "")[:200].replace("\n", " | "))
        print("PYTHONHASHSEED=%s:" % rp["hashseed_b"], (vb or ["?", ""])[0], ((vb or ["", ""])[1] or "")[:200].replace("\n", " | "))
        if va != vb:
            print("VIOLATION property=C11 replay=%s" % path)
            return 1
        print("no difference any more")
        return 0
    if rp.get("kind") != "teal-differs":
        print("replay: kind %r has no executable replay; see the file" % rp.get("kind"))
        return 0
    a = run_real(rp["reference_spec"], rp["reference_hashseed"])
    b = run_real(rp["spec"], rp["hashseed"])
    va = value_of(a["steps"][rp["reference_step"]])
    vb = value_of(b["steps"][rp["step"]])
    print("reference:", va[0], (va[1] or "")[:200].replace("\n", " | "))
    print("session  :", vb[0], (vb[1] or "")[:200].replace("\n", " | "))
    if va != vb:
        print("VIOLATION property=C11 replay=%s" % path)
        return 1
    print("no difference any more")
    return 0


# --------------------------------------------------------------------------------------------------
def main(argv):
    args = parse_args(argv)
    if args.replay:
        return replay(args.replay)
    ck = Check("C11", args.tier)
    thorough = args.tier == "thorough"
    rng = ck.rng

    ck.run_proofs("Props/C11.v", ["Proofs/HistoryEvents.v", "Proofs/HistoryAssign.v", "Proofs/HistoryCompose.v", "Proofs/HistorySession.v"],
                  extra_targets=["Extract/Main_c11.vo"])
    model = Model("c11")

    # ---------------- known findings replayed on the real code; decides which semantics the code follows ----------
    fs = finding_sessions()
    jobs = []
    for fid, (specs, judge) in fs.items():
        for sp in specs:
            jobs.append((sp, 0))
    res = run_many(jobs)
    still = {}
    pos = 0
    for fid, (specs, judge) in fs.items():
        rs = res[pos:pos + len(specs)]
        pos += len(specs)
        if any("error" in r for r in rs):
            ck.violation("known-finding replay %s could not run: %s" % (fid, [r.get("error") for r in rs]), {"kind": "replay-error", "finding": fid}, no_failing_input=True)
            continue
        fails, details = judge(rs)
        still[fid] = fails
        ck.count(("finding-replay", fid), nontrivial=False)
        base = fid.split("/")[0]
        listed = ck.match_known(lambda f: f["id"] == base)
        if fails:
            if listed:
                ck.known(base, KNOWN_TEXT[base])
            else:
                ck.violation("unlisted defect: " + KNOWN_TEXT[base], {"kind": "finding-replay", "finding": fid, "details": details, "specs": specs})
    mode = "faithful" if still.get("marker-stuck-after-raising-body") else "fixed"
    ck.coverage["frame_pointer_context_semantics_observed"] = mode
    ck.coverage["known_finding_replays"] = still

    t_phase = {"proofs_and_replays": round(time.time() - ck.t0, 1)}
    # ---------------- correspondence 1: the id-usage functions, in process ----------------
    _t = time.time()
    id_mism = check_id_usage(ck, model, thorough)
    ck.coverage["id_usage_mismatches"] = len(id_mism)

    t_phase["id_usage"] = round(time.time() - _t, 1)
    _t = time.time()
    # ---------------- implementation side (a): directed programs under several hash seeds ----------------
    probe_seeds = [0, 1, 2, 3, 7, 11, rng.randrange(12, 2**32 - 1)] + ([5, 13, 42, rng.randrange(8, 2**32 - 1), rng.randrange(8, 2**32 - 1)] if thorough else [])
    probe_found, probe_n = hashseed_probe(ck, probe_seeds)
    ck.coverage["hashseed_probe"] = {"hash_seeds": probe_seeds, "comparisons": probe_n, "differences": len(probe_found)}
    for f in probe_found[:4]:
        if f["kind"] == "hashseed-differs":
            ck.violation("program %s (harness/c11_probe.py, variant %d) compiles to different TEAL under PYTHONHASHSEED=%s and %s" % (
                f["program"], f["variant_seed"], f["hashseed_a"], f["hashseed_b"]), f)
        else:
            ck.violation("program %s (harness/c11_probe.py, variant %d, PYTHONHASHSEED=%s): %s" % (
                f["program"], f["variant_seed"], f["hashseed"], f["what_differs"]), f)

    hist_found, hist_n = history_order_probe(ck, probe_seeds if thorough else probe_seeds[:4])
    ck.coverage["history_order_probe"] = {"comparisons": hist_n, "differences": len(hist_found)}
    for f in hist_found[:4]:
        ck.violation("program %s (harness/c11_probe.py) gives %s after %s in the same interpreter (PYTHONHASHSEED=%s) but %s alone in a fresh one" % (
            f["program"], f["after_history"][0] if f["after_history"][0] == "ok" else f["after_history"][1], f["history"][-3:], f["hashseed"],
            f["fresh"][0] if f["fresh"][0] == "ok" else f["fresh"][1]) + (" (different TEAL)" if f["fresh"][0] == f["after_history"][0] == "ok" else ""), f)
    t_phase["hashseed_probe"] = round(time.time() - _t, 1)
    _t = time.time()
    # ---------------- correspondence 2 + implementation-side check (b): sessions ----------------
    subjects, _ = build_corpus(rng, thorough)
    by_sid = {s["sid"]: s for s in subjects}
    sessions = fresh_sessions(subjects)
    n_fresh = len(sessions)
    seeds = [0, 1, 2, rng.randrange(3, 2**32 - 1), rng.randrange(3, 2**32 - 1)]
    if thorough:
        seeds += [rng.randrange(3, 2**32 - 1) for _ in range(7)]
    idx = 0
    # one fixed order with repeated / interleaved configurations and no other activity, under every hash seed (seed 0 first:
    # a difference that shows there is about repetition or order, one that shows only later is about the hash seed)
    for hs in seeds:
        sessions.append(make_session("repeats-no-history", idx, subjects, random.Random(12345), hs, history=False))
        idx += 1
    per_seed = 8 if thorough else 2
    for k, hs in enumerate(seeds):
        for _ in range(per_seed if (thorough or k < 2) else 1):
            sessions.append(make_session("history", idx, subjects, random.Random(rng.getrandbits(64)), hs))
            idx += 1
    for hs in (seeds[:2] if thorough else seeds[1:2]):
        sessions.append(make_session("history-no-recovery", idx, subjects, random.Random(rng.getrandbits(64)), hs, recover=False))
        idx += 1
    results = run_many([(spec_of(s), s["hashseed"]) for s in sessions])
    ck.coverage["sessions"] = {"fresh_process_per_subject_and_configuration": n_fresh, "scripted": len(sessions) - n_fresh,
                               "hash_seeds": seeds, "subjects": len(subjects),
                               "subject_flavours": sorted(set(s["flavour"] for s in subjects))}

    t_phase["sessions_run"] = round(time.time() - _t, 1)
    _t = time.time()
    # -- state machine vs observed counters / marker
    corr_breaks = []
    steps_compared = 0
    stuck_seen = 0
    stats_total = {"opaque": 0, "variants": 0, "late_failures": 0}
    hist_hist = {}
    preds_by_session = []
    for s, r in zip(sessions, results):
        if "error" in r:
            corr_breaks.append({"session": session_summary(s), "error": r["error"]})
            preds_by_session.append(None)
            continue
        steps = spec_of(s)["steps"]
        real = r["steps"]
        mm, stats, preds = model_session(model, mode, steps, real, s["recover"])
        preds_by_session.append(preds)
        for k in stats_total:
            stats_total[k] += stats[k]
        steps_compared += len(steps) if mm is None else mm["step"]
        for st, rr in zip(steps, real):
            ck.count(None)
            if rr["marker"]:
                stuck_seen += 1
        for it in s["items"]:
            if "sid" not in it:
                hist_hist[it["what"]] = hist_hist.get(it["what"], 0) + 1
        if mm is not None:
            mm["session"] = session_summary(s)
            mm["spec"] = spec_of(s)
            mm["hashseed"] = s["hashseed"]
            corr_breaks.append(mm)
    ck.coverage["traces_validated_against_impl"] = len(sessions) - len(corr_breaks)
    ck.coverage["transitions"] = steps_compared
    ck.coverage["model_steps"] = stats_total
    ck.coverage["history_activity_histogram"] = hist_hist
    ck.coverage["marker_observed_set_after_a_step"] = stuck_seen

    t_phase["state_machine_compare"] = round(time.time() - _t, 1)
    ck.coverage["phase_seconds"] = t_phase
    # -- TEAL identity
    ref = {}          # (key, tag) -> (value, session index, step index)
    diffs = []
    loose_diffs = {}
    tainted_diffs = 0
    n_obs = 0
    for si, (s, r) in enumerate(zip(sessions, results)):
        if "error" in r:
            continue
        steps = spec_of(s)["steps"]
        preds = preds_by_session[si]
        marker_stuck_before = False
        for i, (st, rr) in enumerate(zip(steps, r["steps"])):
            # in a session without recovery, everything after the marker got stuck (per the state machine) is tainted by finding 1
            tainted = (not s["recover"]) and marker_stuck_before
            if not s["recover"] and preds is not None and i < len(preds) and preds[i][2] != S("none"):
                marker_stuck_before = True
            if "key" not in st:
                continue
            subj = by_sid[st["key"][0]]
            n_obs += 1
            ck.count(("teal", tuple(st["key"]), si, i))
            kind, tag = group_of(subj, st)
            val = value_of(rr)
            k = (tuple(st["key"]), tag if kind == "strict" else "")
            if tainted:
                if k in ref and ref[k][0] != val:
                    tainted_diffs += 1
                continue
            if kind == "loose":
                k0 = (tuple(st["key"]), "")
                if k0 in ref and ref[k0][0] != val:
                    loose_diffs[tag] = loose_diffs.get(tag, 0) + 1
                continue
            if k not in ref:
                ref[k] = (val, si, i)
            elif ref[k][0] != val:
                diffs.append({"key": st["key"], "tag": tag, "session": si, "step": i, "ref_session": ref[k][1], "ref_step": ref[k][2]})
    # groups of one key that differ from each other = sightings of the known findings (class predicate on the recipe)
    group_split = {}
    for (key, tag), (val, si, i) in ref.items():
        group_split.setdefault(key, {})[tag] = val
    split_counts = {"store-into-evaluates-and-caches": 0, "router-recompile-caster-ids": 0}
    for key, tags in group_split.items():
        if len(tags) > 1 and len(set(json.dumps(v) for v in tags.values())) > 1:
            subj = by_sid[key[0]]
            split_counts["router-recompile-caster-ids" if subj["kind"] == "router" else "store-into-evaluates-and-caches"] += 1
    ck.coverage["teal_observations"] = n_obs
    ck.coverage["teal_distinct_keys"] = len(group_split)
    ck.coverage["known_finding_sightings_in_sessions"] = {"loose_group_differences": loose_diffs, "group_splits": split_counts,
                                                           "tainted_by_stuck_marker_differences": tainted_diffs}
    for s in subjects[:3]:
        ck.sample({"subject": s["sid"], "flavour": s["flavour"], "configs": s["configs"], "definition_steps": s["steps_def"][:2]}, limit=3)
    ck.sample({"session": session_summary(sessions[n_fresh + len(seeds) - 1])}, limit=4)

    # ---------------- verdict ----------------
    shown = 0
    for d in diffs:
        if shown >= 3:
            break
        shown += 1
        s = sessions[d["session"]]
        rs = sessions[d["ref_session"]]
        subj = by_sid[d["key"][0]]
        want = value_of(results[d["ref_session"]]["steps"][d["ref_step"]])

        got0 = value_of(results[d["session"]]["steps"][d["step"]])

        def still_differs(cand, d=d, want=want, got0=got0):
            sp = spec_of(cand)
            # locate the same occurrence of the key
            occ = [j for j, st in enumerate(spec_of(sessions[d["session"]])["steps"][:d["step"] + 1]) if st.get("key") == d["key"]]
            nth = len(occ)
            js = [j for j, st in enumerate(sp["steps"]) if st.get("key") == d["key"]]
            if len(js) < nth:
                return False
            r = run_real(sp, cand["hashseed"])
            if "error" in r:
                return False
            v = value_of(r["steps"][js[nth - 1]])
            return v != want and v[0] == got0[0] and (v[0] == "ok" or v[1] == got0[1])
        small = shrink(s, still_differs) if (s["kind"] != "fresh" and shown <= 2) else s
        sp = spec_of(small)
        occ = len([1 for st in spec_of(s)["steps"][:d["step"] + 1] if st.get("key") == d["key"]])
        js = [j for j, st in enumerate(sp["steps"]) if st.get("key") == d["key"]]
        got = value_of(results[d["session"]]["steps"][d["step"]])
        ck.violation("subject %d (%s) at %s compiles to different TEAL in session %s[%d] (hash seed %s, preceded by %s) than in %s" % (
            subj["sid"], subj["flavour"], d["key"][1], s["kind"], s["idx"], s["hashseed"], [it["what"] for it in small["items"]][:6], rs["kind"]),
            {"kind": "teal-differs", "key": d["key"], "group": d["tag"], "spec": sp, "hashseed": small["hashseed"], "step": js[occ - 1] if len(js) >= occ else d["step"],
             "reference_spec": spec_of(rs), "reference_hashseed": rs["hashseed"], "reference_step": d["ref_step"],
             "expected": want, "observed": got, "items": [it["what"] for it in small["items"]]})
    ck.coverage["disagreements_checked"] = len(diffs) + len(corr_breaks) + len(id_mism)
    witnesses = []
    if corr_breaks and not diffs:
        witnesses, n_w = search_witness(corr_breaks)
        ck.coverage["witness_search"] = {"candidates": n_w, "found": len(witnesses)}
        for w in witnesses[:2]:
            ck.violation("%s %s compiled at %s after the session prefix differs from the same definitions compiled in a fresh process (%s)" % (
                "router" if w["target"][0] == "r" else "program", w["target"][1], json.dumps(w["config"]), w["found_by"]), w)
    if corr_breaks and not diffs and not witnesses:
        b0 = corr_breaks[0]
        ck.violation("correspondence broken: observed counters/marker differ from the state machine Hist/Session.v at step %s (%s) of a %s session "
                     "(theorems C11_history_only_shifts / C11_marker_restored no longer transfer); no TEAL difference found in %d observations" % (
                         b0.get("step"), b0.get("kind"), b0.get("session", {}).get("kind"), n_obs),
                     {"kind": "correspondence", "broken": "state machine vs ScratchSlot.nextSlotId / SubroutineDefinition.nextSubroutineId / SubroutineEval._current_proto",
                      "first": b0, "count": len(corr_breaks)}, no_failing_input=True)
    if id_mism and not diffs:
        ck.violation("correspondence broken: %s differs from Hist/Assign.v (theorems C11_*_rename_invariant no longer transfer)" % id_mism[0]["fn"],
                     {"kind": "correspondence", "broken": id_mism[0]["fn"], "first": id_mism[0], "count": len(id_mism)}, no_failing_input=True)
    if not ck.proof_ok and not diffs:
        ck.violation("proof obligation broken: Props/C11.v or its lemma files no longer check",
                     {"kind": "proof", "broken": "Props/C11.v", "log": ck.proof_log[-1500:]}, no_failing_input=True)
    model.close()
    try:
        os.rmdir(HERE_TMP)
    except OSError:
        pass
    return ck.finish(
        level="proof",
        rule="proof: Props/C11.v (16 theorems, 3 of them refutations). correspondence (a) in process: assignScratchSlotsToSubroutines / resolveSubroutines / "
             "compile order vs Hist/Assign.v on random id sets incl. reserved duplicates, >256 slots, renumbered ids; (b) sessions in separate interpreters: "
             "after every step nextSlotId, nextSubroutineId and the marker vs Hist/Session.v. implementation side: a corpus of subject programs/routers generated "
             "from VERIF_SEED (flavours listed in coverage), each configuration first compiled alone in a fresh process (reference), then inside sessions with "
             "shuffled order, random preceding activity (failing compilations of %d classes, other programs, routers), repeated and interleaved configurations, "
             "under hash seeds %s; TEAL (or exception class) must equal the reference byte for byte. a case is one (subject, configuration, session, step) "
             "observation; distinct = distinct tuple; non-trivial = a subject compilation or an id-usage case with at least two objects" % (len(G.FAIL_CLASSES), seeds),
        trusted_base=[
            "Theorems speak about Hist/Events.v, Hist/Assign.v, Hist/Session.v (hand models), tied to the code by exact comparison of counters, marker, slot numbers, label indices and compile order on every run",
            "The model has no hash seed, set order or object address: sets are lists; C11_assign_set_order_irrelevant shows this is harmless for distinct ids; the implementation-side sessions test it",
            "TEAL text emission is not modelled for this property: byte identity of TEAL is checked on the implementation only (explored sessions), not proved",
            "Recipes -> PyTeal objects (harness/c11_session.py) and recipes -> model ops (harness/c11_gen.py) are trusted glue; MAX_FRAME_LOCAL_VARS is not modelled",
            "Extraction: ExtrOcamlBasic + ExtrOcamlNativeString, ocaml/driver.ml",
        ],
        explanation="partial by nature: the renaming/shift core is proved, hash-seed and address independence are tested")


if __name__ == "__main__":
    sys.exit(run_main(main))
