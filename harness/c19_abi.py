"""ABI helper layer for the checks that talk about ARC-4 types (written for C19; reusable by C06/C07/C09/C14).

Python representation of the Coq type language `ABI/Types.v` (hashable nested tuples):

    "bool" "byte" "address" "string" "dynbytes"
    ("uint", N) ("sarr", T, N) ("darr", T) ("sbytes", N)
    ("tuple", T, ...) ("named", C, (NAME, ...), T, ...)
    ("txn", "any"|"pay"|"keyreg"|"acfg"|"axfer"|"afrz"|"appl") ("ref", "account"|"asset"|"application")

and of values (`ABI/Spec.v` val): bool | int | bytes (= list of byte values) | list.
`ty_sx` / `sx` (from common) give the wire text of `ABI/Wire.v`.

Three independent views of a type are provided:
  * to_pyteal(t)      -> the real pyteal.abi TypeSpec object (public constructors only)
  * to_sdk(t)         -> algosdk.abi.ABIType (reference codec), built from the type's own ARC-4 string
  * parse_type_str(s) -> a layout tree parsed from an ARC-4 type string by a 40-line parser that knows
                         nothing about PyTeal or the Coq model (used for the semantic oracle)
"""
import random

from common import S, sx  # noqa

TXN_KINDS = ["any", "pay", "keyreg", "acfg", "axfer", "afrz", "appl"]
TXN_STR = {"any": "txn", "pay": "pay", "keyreg": "keyreg", "acfg": "acfg", "axfer": "axfer", "afrz": "afrz", "appl": "appl"}
REF_KINDS = ["account", "asset", "application"]


# ---------------------------------------------------------------------------------------------
# wire
# ---------------------------------------------------------------------------------------------
def ty_sx(t):
    """type -> python object that common.sx() prints in ABI/Wire.v syntax"""
    if isinstance(t, str):
        return S(t)
    h = t[0]
    if h in ("uint", "sbytes"):
        return (S(h), t[1])
    if h == "sarr":
        return (S(h), ty_sx(t[1]), t[2])
    if h == "darr":
        return (S(h), ty_sx(t[1]))
    if h == "tuple":
        return (S(h),) + tuple(ty_sx(x) for x in t[1:])
    if h == "named":
        return (S(h), t[1], tuple(t[2])) + tuple(ty_sx(x) for x in t[3:])
    if h in ("txn", "ref"):
        return (S(h), S(t[1]))
    raise ValueError("ty_sx: %r" % (t,))


def ty_text(t):
    return sx(ty_sx(t))


def val_sx(v):
    """value -> object that common.sx() prints in ABI/Wire.v syntax; long constant runs use the compact
    (rep N v) / (repb N B) spellings (the shared s-expression reader is quadratic in atom/list length)"""
    if isinstance(v, (bytes, bytearray)):
        if len(v) > 1500 and len(set(v)) == 1:
            return (S("repb"), len(v), v[0])
        return bytes(v)
    if isinstance(v, list):
        if len(v) > 1500 and all(x == v[0] for x in v):
            return (S("rep"), len(v), val_sx(v[0]))
        return [val_sx(x) for x in v]
    return v


def children(t):
    if isinstance(t, str):
        return ()
    h = t[0]
    if h in ("sarr", "darr"):
        return (t[1],)
    if h == "tuple":
        return t[1:]
    if h == "named":
        return t[3:]
    return ()


def depth(t):
    c = children(t)
    return 0 if not c and (isinstance(t, str) or t[0] not in ("tuple", "named", "sarr", "darr")) else 1 + max([depth(x) for x in c], default=0)


def size(t):
    return 1 + sum(size(x) for x in children(t))


def has_special(t):
    """contains a transaction or reference spec (not an ARC-4 value type)"""
    if not isinstance(t, str) and t[0] in ("txn", "ref"):
        return True
    return any(has_special(x) for x in children(t))


# ---------------------------------------------------------------------------------------------
# ARC-4 type string, computed here independently of PyTeal and of the Coq model
# ---------------------------------------------------------------------------------------------
def arc4_str(t):
    if isinstance(t, str):
        return "byte[]" if t == "dynbytes" else t
    h = t[0]
    if h == "uint":
        return "uint%d" % t[1]
    if h == "sbytes":
        return "byte[%d]" % t[1]
    if h == "sarr":
        return "%s[%d]" % (arc4_str(t[1]), t[2])
    if h == "darr":
        return "%s[]" % arc4_str(t[1])
    if h in ("tuple", "named"):
        return "(" + ",".join(arc4_str(x) for x in children(t)) + ")"
    if h == "txn":
        return TXN_STR[t[1]]
    if h == "ref":
        return t[1]
    raise ValueError(t)


def split_top(s):
    """split the inside of a tuple string at top-level commas"""
    out, lvl, cur = [], 0, []
    for ch in s:
        if ch == "(":
            lvl += 1
        elif ch == ")":
            lvl -= 1
        if ch == "," and lvl == 0:
            out.append("".join(cur))
            cur = []
        else:
            cur.append(ch)
    if cur or out:
        out.append("".join(cur))
    return out


def parse_type_str(s):
    """ARC-4 type string -> normalised layout tree:
       'bool' | ('uint', n) | ('arr', L, n) | ('dyn', L) | ('tup', L...) | 'txn' | ('ref', kind).
       byte = uint8, address = uint8[32], string = uint8[]; every transaction type -> 'txn'."""
    if s.endswith("]"):
        i = s.rindex("[")
        inner, num = s[:i], s[i + 1 : -1]
        if num == "":
            return ("dyn", parse_type_str(inner))
        if not num.isdigit():
            raise ValueError("bad array length in %r" % s)
        return ("arr", parse_type_str(inner), int(num))
    if s.startswith("(") and s.endswith(")"):
        return ("tup",) + tuple(parse_type_str(x) for x in split_top(s[1:-1]))
    if s == "bool":
        return "bool"
    if s == "byte":
        return ("uint", 8)
    if s == "address":
        return ("arr", ("uint", 8), 32)
    if s == "string":
        return ("dyn", ("uint", 8))
    if s.startswith("uint") and s[4:].isdigit():
        return ("uint", int(s[4:]))
    if s in TXN_STR.values():
        return "txn"
    if s in REF_KINDS:
        return ("ref", s)
    raise ValueError("unknown type string %r" % s)


def layout_of_sdk(a):
    """algosdk ABIType -> the same normalised layout tree (second, codec-derived opinion)"""
    import algosdk.abi as A
    if isinstance(a, A.BoolType):
        return "bool"
    if isinstance(a, A.ByteType):
        return ("uint", 8)
    if isinstance(a, A.UintType):
        return ("uint", a.bit_size)
    if isinstance(a, A.AddressType):
        return ("arr", ("uint", 8), 32)
    if isinstance(a, A.StringType):
        return ("dyn", ("uint", 8))
    if isinstance(a, A.ArrayStaticType):
        return ("arr", layout_of_sdk(a.child_type), a.static_length)
    if isinstance(a, A.ArrayDynamicType):
        return ("dyn", layout_of_sdk(a.child_type))
    if isinstance(a, A.TupleType):
        return ("tup",) + tuple(layout_of_sdk(c) for c in a.child_types)
    raise ValueError("layout_of_sdk: %r" % (a,))


def layout_from_wire(e):
    """parsed (layout ...) response of the model -> the same tree shape as parse_type_str"""
    if isinstance(e, list):
        h = e[0].name
        if h == "uint":
            return ("uint", e[1])
        if h == "arr":
            return ("arr", layout_from_wire(e[1]), e[2])
        if h == "dyn":
            return ("dyn", layout_from_wire(e[1]))
        if h == "tup":
            return ("tup",) + tuple(layout_from_wire(x) for x in e[1:])
        if h == "ref":
            return ("ref", e[1].name)
        raise ValueError(e)
    return e.name


# ---------------------------------------------------------------------------------------------
# the real PyTeal objects
# ---------------------------------------------------------------------------------------------
_named_classes = {}


def named_class(c, names):
    """One Python NamedTuple subclass per class number c (class identity = c). The declared field
    annotations are placeholders: NamedTupleTypeSpec(cls, *specs) takes the specs as given."""
    from pyteal import abi
    if c not in _named_classes:
        anns = {}
        for i, n in enumerate(names if names else ["f0"]):
            anns[n] = abi.Field[abi.Uint64]
        _named_classes[c] = type("NT%d" % c, (abi.NamedTuple,), {"__annotations__": anns})
    return _named_classes[c]


_real_named = {}


def realistic_named(names, ts):
    """A NamedTuple subclass declared the normal way (annotations = the element types); returns the
    type term whose class number is unique for (names, ts).  Class numbers >= 1000."""
    from pyteal import abi
    key = (tuple(names), tuple(ts))
    if key not in _real_named:
        c = 1000 + len(_real_named)
        anns = {}
        for n, t in zip(names, ts):
            anns[n] = abi.Field[to_pyteal(t).annotation_type()]
        cls = type("RNT%d" % c, (abi.NamedTuple,), {"__annotations__": anns})
        _named_classes[c] = cls
        _real_named[key] = c
    return ("named", _real_named[key], tuple(names)) + tuple(ts)


def to_pyteal(t):
    from pyteal import abi
    if isinstance(t, str):
        return {"bool": abi.BoolTypeSpec, "byte": abi.ByteTypeSpec, "address": abi.AddressTypeSpec,
                "string": abi.StringTypeSpec, "dynbytes": abi.DynamicBytesTypeSpec}[t]()
    h = t[0]
    if h == "uint":
        return {8: abi.Uint8TypeSpec, 16: abi.Uint16TypeSpec, 32: abi.Uint32TypeSpec, 64: abi.Uint64TypeSpec}[t[1]]()
    if h == "sbytes":
        return abi.StaticBytesTypeSpec(t[1])
    if h == "sarr":
        return abi.StaticArrayTypeSpec(to_pyteal(t[1]), t[2])
    if h == "darr":
        return abi.DynamicArrayTypeSpec(to_pyteal(t[1]))
    if h == "tuple":
        return abi.TupleTypeSpec(*[to_pyteal(x) for x in t[1:]])
    if h == "named":
        cls = named_class(t[1], t[2])
        if t[1] >= 1000:
            spec = cls().type_spec()           # the normal route: instance -> type_spec()
            return spec
        return abi.NamedTupleTypeSpec(cls, *[to_pyteal(x) for x in t[3:]])
    if h == "txn":
        return {"any": abi.TransactionTypeSpec, "pay": abi.PaymentTransactionTypeSpec,
                "keyreg": abi.KeyRegisterTransactionTypeSpec, "acfg": abi.AssetConfigTransactionTypeSpec,
                "axfer": abi.AssetTransferTransactionTypeSpec, "afrz": abi.AssetFreezeTransactionTypeSpec,
                "appl": abi.ApplicationCallTransactionTypeSpec}[t[1]]()
    if h == "ref":
        return {"account": abi.AccountTypeSpec, "asset": abi.AssetTypeSpec, "application": abi.ApplicationTypeSpec}[t[1]]()
    raise ValueError(t)


PY_CLASS_NAMES = {
    "TypeSpec": "TypeSpec", "Bool": "BoolTypeSpec", "Uint": "UintTypeSpec", "Byte": "ByteTypeSpec",
    "Array": "ArrayTypeSpec", "StaticArray": "StaticArrayTypeSpec", "StaticBytes": "StaticBytesTypeSpec",
    "Address": "AddressTypeSpec", "DynamicArray": "DynamicArrayTypeSpec", "DynamicBytes": "DynamicBytesTypeSpec",
    "String": "StringTypeSpec", "Tuple": "TupleTypeSpec", "NamedTuple": "NamedTupleTypeSpec",
    "Reference": "ReferenceTypeSpec",
    ("UintN", 8): "Uint8TypeSpec", ("UintN", 16): "Uint16TypeSpec", ("UintN", 32): "Uint32TypeSpec", ("UintN", 64): "Uint64TypeSpec",
    ("Txn", "any"): "TransactionTypeSpec", ("Txn", "pay"): "PaymentTransactionTypeSpec",
    ("Txn", "keyreg"): "KeyRegisterTransactionTypeSpec", ("Txn", "acfg"): "AssetConfigTransactionTypeSpec",
    ("Txn", "axfer"): "AssetTransferTransactionTypeSpec", ("Txn", "afrz"): "AssetFreezeTransactionTypeSpec",
    ("Txn", "appl"): "ApplicationCallTransactionTypeSpec",
    ("Ref", "account"): "AccountTypeSpec", ("Ref", "asset"): "AssetTypeSpec", ("Ref", "application"): "ApplicationTypeSpec",
}


def class_sx(k):
    return S(k) if isinstance(k, str) else (S(k[0]), k[1] if isinstance(k[1], int) else S(k[1]))


# ---------------------------------------------------------------------------------------------
# reference codec
# ---------------------------------------------------------------------------------------------
def to_sdk(t):
    import algosdk.abi as A
    return A.ABIType.from_string(arc4_str(t))


def sdk_value(a, v):
    """our value (bool | int | bytes | list) -> what algosdk's encoder expects for ABIType a"""
    import algosdk.abi as A
    if isinstance(a, (A.BoolType, A.UintType, A.ByteType)):
        return v
    if isinstance(a, A.AddressType):
        return bytes(v) if not isinstance(v, bytes) else v
    if isinstance(a, A.StringType):
        b = bytes(v) if not isinstance(v, bytes) else v
        return b.decode("utf-8")
    if isinstance(a, (A.ArrayStaticType, A.ArrayDynamicType)):
        return [sdk_value(a.child_type, x) for x in (list(v) if isinstance(v, bytes) else v)]
    if isinstance(a, A.TupleType):
        return [sdk_value(c, x) for c, x in zip(a.child_types, v)] + list(v[len(a.child_types):])
    raise ValueError(a)


def sdk_encode(a, v):
    """('ok', bytes) | ('err', ExceptionName)"""
    try:
        return ("ok", a.encode(sdk_value(a, v)))
    except Exception as e:  # noqa
        return ("err", type(e).__name__)


def val_from_wire(e):
    """parsed model value -> python value (bool | int | bytes | list)"""
    if isinstance(e, list):
        return [val_from_wire(x) for x in e]
    if hasattr(e, "name"):
        if e.name in ("true", "false"):
            return e.name == "true"
        raise ValueError("unexpected atom %r in a value" % (e,))
    if isinstance(e, str):
        return e.encode("latin-1")
    return e


def norm_value(v):
    """bytes -> list of ints (the meaning of VBytes)"""
    if isinstance(v, (bytes, bytearray)):
        return list(v)
    if isinstance(v, list):
        return [norm_value(x) for x in v]
    return v


# ---------------------------------------------------------------------------------------------
# value generation (directed by the normalised layout, so that it does not depend on spellings)
# ---------------------------------------------------------------------------------------------
def utf8_bytes(rng, n):
    """n..n+3 bytes of valid UTF-8"""
    out = b""
    while len(out) < n:
        k = rng.random()
        if k < 0.7:
            out += bytes([rng.randrange(0x20, 0x7F)])
        elif k < 0.85:
            out += chr(rng.randrange(0x80, 0x800)).encode()
        elif k < 0.95:
            out += chr(rng.choice([0x20AC, 0x4E2D, 0xFFFD, 0x0800])).encode()
        else:
            out += chr(rng.randrange(0x10000, 0x10FFFF)).encode()
    return out


def gen_value(L, rng, text=True, maxlen=4):
    """A well-typed value for layout L. Byte arrays come out as `bytes` (valid UTF-8 when text=True, so
    that the same value is acceptable where a spelling of the type says `string`)."""
    if L == "bool":
        return rng.random() < 0.5
    h = L[0]
    if h == "uint":
        bits = L[1]
        return rng.choice([0, 1, (1 << bits) - 1, 1 << (bits - 1), rng.randrange(1 << bits), rng.randrange(1 << bits)])
    if h == "arr":
        if L[1] == ("uint", 8):
            if text:
                b = utf8_bytes(rng, L[2])
                # exactly n bytes and still valid UTF-8: pad/cut with ASCII
                b = b[: L[2]]
                try:
                    b.decode("utf-8")
                except UnicodeDecodeError:
                    b = bytes(rng.randrange(0x20, 0x7F) for _ in range(L[2]))
                return b
            return bytes(rng.randrange(256) for _ in range(L[2]))
        return [gen_value(L[1], rng, text, maxlen) for _ in range(L[2])]
    if h == "dyn":
        n = rng.choice([0, 1, 2, 3, maxlen, rng.randrange(0, 2 * maxlen + 1)])
        if L[1] == ("uint", 8):
            if text:
                return utf8_bytes(rng, n) if n else b""
            return bytes(rng.randrange(256) for _ in range(n))
        if L[1] == "bool":
            n = rng.choice([0, 1, 7, 8, 9, 16, 17, n])
        return [gen_value(L[1], rng, text, maxlen) for _ in range(n)]
    if h == "tup":
        return [gen_value(x, rng, text, maxlen) for x in L[1:]]
    raise ValueError("no values for layout %r" % (L,))


# ---------------------------------------------------------------------------------------------
# type generation
# ---------------------------------------------------------------------------------------------
LEAVES_CORE = ["bool", "byte", ("uint", 8), ("uint", 16), ("uint", 32), ("uint", 64), "address", "string", "dynbytes",
               ("sbytes", 32), ("sbytes", 2)]
LEAVES_SPECIAL = [("txn", k) for k in TXN_KINDS] + [("ref", k) for k in REF_KINDS]


def rand_type(rng, d, special=0.03, named=0.2):
    """random type of depth <= d"""
    if d == 0 or rng.random() < 0.3:
        if rng.random() < special:
            return rng.choice(LEAVES_SPECIAL)
        x = rng.choice(LEAVES_CORE + [("sbytes", rng.choice([0, 1, 3, 31, 32, 33]))])
        return x
    k = rng.random()
    if k < 0.25:
        return ("sarr", rand_type(rng, d - 1, special, named), rng.choice([0, 1, 2, 3, 8, 9, 32]))
    if k < 0.45:
        return ("darr", rand_type(rng, d - 1, special, named))
    w = rng.choice([0, 1, 1, 2, 2, 3, 3, 4, 6, 9])
    ts = tuple(rand_type(rng, d - 1, special, named) for _ in range(w))
    if rng.random() < named:
        return ("named", rng.randrange(1, 4), tuple("f%d" % i for i in range(w))) + ts
    return ("tuple",) + ts


def mutate(rng, t, p=0.35):
    """A near variant of t: spellings swapped (layout-preserving) and, with smaller probability, a
    layout-changing edit somewhere — so that related pairs are both frequently assignable and
    frequently `almost` assignable."""
    def leaf_variant(x):
        groups = [["byte", ("uint", 8)],
                  ["address", ("sbytes", 32), ("sarr", "byte", 32), ("sarr", ("uint", 8), 32)],
                  ["string", "dynbytes", ("darr", "byte"), ("darr", ("uint", 8))]]
        for g in groups:
            if x in g:
                return rng.choice(g)
        return x

    def breaking(x):
        k = rng.randrange(8)
        if k == 0:
            return rng.choice(LEAVES_CORE)
        if k == 1 and not isinstance(x, str) and x[0] == "uint":
            return ("uint", rng.choice([8, 16, 32, 64]))
        if k == 2 and not isinstance(x, str) and x[0] == "sarr":
            return ("sarr", x[1], max(0, x[2] + rng.choice([-1, 1])))
        if k == 3 and not isinstance(x, str) and x[0] == "sbytes":
            return ("sbytes", max(0, x[1] + rng.choice([-1, 1])))
        if k == 4 and not isinstance(x, str) and x[0] == "sarr":
            return ("darr", x[1])
        if k == 5 and not isinstance(x, str) and x[0] == "darr":
            return ("sarr", x[1], rng.choice([0, 1, 2]))
        if k == 6 and not isinstance(x, str) and x[0] in ("tuple", "named"):
            ch = list(children(x))
            if ch and rng.random() < 0.5:
                ch.pop(rng.randrange(len(ch)))
            else:
                ch.insert(rng.randrange(len(ch) + 1), rng.choice(LEAVES_CORE))
            return ("tuple",) + tuple(ch)
        if k == 7 and x == "address":
            return ("sbytes", rng.choice([31, 33]))
        return x

    def go(x):
        r = rng.random()
        if r < p * 0.25:
            return breaking(x)
        if r < p:
            y = leaf_variant(x)
            if y != x:
                return y
        if isinstance(x, str):
            return x
        h = x[0]
        if h == "sarr":
            return ("sarr", go(x[1]), x[2])
        if h == "darr":
            return ("darr", go(x[1]))
        if h == "tuple":
            ts = tuple(go(y) for y in x[1:])
            if rng.random() < 0.15:
                return ("named", rng.randrange(1, 4), tuple("f%d" % i for i in range(len(ts)))) + ts
            return ("tuple",) + ts
        if h == "named":
            ts = tuple(go(y) for y in x[3:])
            r2 = rng.random()
            if r2 < 0.3:
                return ("tuple",) + ts
            if r2 < 0.45:
                return ("named", rng.randrange(1, 4), x[2]) + ts
            return ("named", x[1], x[2]) + ts
        if h == "txn" and rng.random() < 0.5:
            return ("txn", rng.choice(TXN_KINDS))
        if h == "ref" and rng.random() < 0.3:
            return ("ref", rng.choice(REF_KINDS))
        return x

    return go(t)
