"""C14: an ARC-4 CLIENT ENCODER written for this check from the ARC-4 text — it knows nothing about PyTeal's
InnerTxnBuilder, about the Coq model (coq/Router/Itxn.v) or about the C09 client (c09_client.py); plain-argument
encodings are cross-checked against algosdk.abi on every run.

ARC-4 as read here
  types    uintN (N/8 bytes big-endian) | byte (= uint8) | bool (one byte, 0x80 = true) | address (= byte[32]) |
           string (= byte[]) | T[N] (the N-tuple of T) | T[] (uint16 count, then the count-tuple of T) | (T1,...,Tk)
  tuple    heads then tails; static member: head = its encoding; dynamic member: head = uint16 offset of its tail from
           the start of the tuple; up to 8 CONSECUTIVE bool members share one head byte, first bool = most significant bit
  call     ApplicationArgs[0] = first 4 bytes of SHA-512/256("name(argtypes)rettype");
           every argument that is not a transaction takes the next ApplicationArgs entry, in order; when there are MORE
           than 15 such arguments, the first 14 are passed alone and the remaining ones as ONE tuple in entry 15;
           account / asset / application arguments travel as a uint8 index into Accounts / ForeignAssets / ForeignApps
           (Accounts and ForeignApps: entry 0 is implicit — the sender / the called application);
           transaction arguments are not application arguments: they are the transactions placed immediately before
           the application call in its group, in the order of the arguments, each of the type the signature names.
Values: bool | int | bytes (byte arrays, addresses, strings as UTF-8 bytes) | list.
"""
import hashlib

TXN_TYPES = {"txn": None, "pay": 1, "keyreg": 2, "acfg": 3, "axfer": 4, "afrz": 5, "appl": 6}
REF_TYPES = ("account", "asset", "application")


class EncodeError(Exception):
    pass


def selector(sig):
    h = hashlib.new("sha512_256")
    h.update(sig.encode("utf-8"))
    return h.digest()[:4]


# ---- types -----------------------------------------------------------------------------------
def _split(s):
    out, lvl, cur = [], 0, ""
    for ch in s:
        if ch == "(":
            lvl += 1
        if ch == ")":
            lvl -= 1
        if ch == "," and lvl == 0:
            out.append(cur)
            cur = ""
        else:
            cur += ch
    if cur != "" or out:
        out.append(cur)
    return out


def parse(s):
    """type string -> ('bool',) | ('uint', bits) | ('array', T, n) | ('vector', T) | ('tuple', [T...])"""
    if s.endswith("]"):
        i = s.rindex("[")
        n = s[i + 1:-1]
        return ("vector", parse(s[:i])) if n == "" else ("array", parse(s[:i]), int(n))
    if s.startswith("("):
        if not s.endswith(")"):
            raise EncodeError("bad tuple type %r" % s)
        return ("tuple", [parse(x) for x in _split(s[1:-1])])
    if s == "bool":
        return ("bool",)
    if s == "byte":
        return ("uint", 8)
    if s == "address":
        return ("array", ("uint", 8), 32)
    if s == "string":
        return ("vector", ("uint", 8))
    if s.startswith("uint") and s[4:].isdigit() and 8 <= int(s[4:]) <= 512 and int(s[4:]) % 8 == 0:
        return ("uint", int(s[4:]))
    raise EncodeError("not an ARC-4 value type: %r" % s)


def dynamic(T):
    k = T[0]
    if k == "vector":
        return True
    if k == "array":
        return dynamic(T[1])
    if k == "tuple":
        return any(dynamic(x) for x in T[1])
    return False


def static_size(T):
    k = T[0]
    if k == "bool":
        return 1
    if k == "uint":
        return T[1] // 8
    if k == "array":
        return (T[2] + 7) // 8 if T[1] == ("bool",) else T[2] * static_size(T[1])
    if k == "tuple":
        n, i, Ts = 0, 0, T[1]
        while i < len(Ts):
            if Ts[i] == ("bool",):
                j = i
                while j < len(Ts) and Ts[j] == ("bool",):
                    j += 1
                n += (j - i + 7) // 8
                i = j
            else:
                n += static_size(Ts[i])
                i += 1
        return n
    raise EncodeError("dynamic")


# ---- encoding --------------------------------------------------------------------------------
def _seq(v):
    return list(v) if isinstance(v, (bytes, bytearray)) else list(v)


def encode_tuple(Ts, vs):
    if len(Ts) != len(vs):
        raise EncodeError("tuple arity")
    heads, tails = [], []
    i = 0
    while i < len(Ts):
        if Ts[i] == ("bool",):
            j = i
            while j < len(Ts) and Ts[j] == ("bool",):
                j += 1
            bits = vs[i:j]
            for k in range(0, len(bits), 8):
                b = 0
                for m, bit in enumerate(bits[k:k + 8]):
                    if not isinstance(bit, bool):
                        raise EncodeError("bool expected")
                    if bit:
                        b |= 0x80 >> m
                heads.append(bytes([b]))
            i = j
        else:
            e = encode(Ts[i], vs[i])
            if dynamic(Ts[i]):
                heads.append(None)
                tails.append(e)
            else:
                heads.append(e)
            i += 1
    hl = sum(2 if h is None else len(h) for h in heads)
    out, off, ti = b"", hl, 0
    for h in heads:
        if h is None:
            if off > 0xFFFF:
                raise EncodeError("offset overflow")
            out += off.to_bytes(2, "big")
            off += len(tails[ti])
            ti += 1
        else:
            out += h
    return out + b"".join(tails)


def encode(T, v):
    k = T[0]
    if k == "bool":
        if not isinstance(v, bool):
            raise EncodeError("bool expected")
        return b"\x80" if v else b"\x00"
    if k == "uint":
        if isinstance(v, bool) or not isinstance(v, int) or not 0 <= v < 1 << T[1]:
            raise EncodeError("uint%d out of range" % T[1])
        return v.to_bytes(T[1] // 8, "big")
    if k == "array":
        vs = _seq(v)
        if len(vs) != T[2]:
            raise EncodeError("array length")
        return encode_tuple([T[1]] * T[2], vs)
    if k == "vector":
        vs = _seq(v)
        if len(vs) > 0xFFFF:
            raise EncodeError("vector length")
        return len(vs).to_bytes(2, "big") + encode_tuple([T[1]] * len(vs), vs)
    if k == "tuple":
        return encode_tuple(T[1], list(v))
    raise EncodeError(T)


def encode_str(type_str, v):
    return encode(parse(type_str), v)


def split_tuple(Ts, b):
    """the encodings of the members of a tuple encoded as b (None when b is not a well-formed tuple of these types)"""
    slots, pos, i = [], 0, 0
    try:
        while i < len(Ts):
            if Ts[i] == ("bool",):
                j = i
                while j < len(Ts) and Ts[j] == ("bool",):
                    j += 1
                for m in range(j - i):
                    byte = b[pos + m // 8]
                    slots.append(("v", b"\x80" if byte & (0x80 >> (m % 8)) else b"\x00"))
                pos += (j - i + 7) // 8
                i = j
            elif dynamic(Ts[i]):
                slots.append(("d", int.from_bytes(b[pos:pos + 2], "big")))
                if pos + 2 > len(b):
                    return None
                pos += 2
                i += 1
            else:
                n = static_size(Ts[i])
                if pos + n > len(b):
                    return None
                slots.append(("v", b[pos:pos + n]))
                pos += n
                i += 1
    except IndexError:
        return None
    out = []
    for k, (kind, x) in enumerate(slots):
        if kind == "v":
            out.append(x)
        else:
            nxt = len(b)
            for kind2, y in slots[k + 1:]:
                if kind2 == "d":
                    nxt = y
                    break
            if not (x <= nxt <= len(b)):
                return None
            out.append(b[x:nxt])
    return out


# ---- the call --------------------------------------------------------------------------------
def signature(name, arg_types, ret):
    return "%s(%s)%s" % (name, ",".join(arg_types), ret)


def kind_of(type_str):
    return "txn" if type_str in TXN_TYPES else "ref" if type_str in REF_TYPES else "plain"


class Expected:
    """What an ARC-4 callee must be able to read from a call made with `args`:
       selector; slots = the application arguments after the selector, each
           ('bytes', b)                      a plain argument alone in its slot
           ('ref', kind, value)              a reference argument alone in its slot (any index that resolves to value)
           ('tuple', [wire types], [member]) the 15th and later arguments, member = ('bytes', b) | ('ref', kind, value)
       txns = the transaction arguments in order (dicts with 'type')."""
    __slots__ = ("sig", "selector", "slots", "txns", "txn_types")


def expect_call(name, arg_types, ret, args):
    if len(arg_types) != len(args):
        raise EncodeError("argument count")
    e = Expected()
    e.sig = signature(name, arg_types, ret)
    e.selector = selector(e.sig)
    e.txns = []
    e.txn_types = []    # the declared type string of every transaction argument
    members = []        # (wire type string, member)
    for ts, a in zip(arg_types, args):
        k = kind_of(ts)
        if k == "txn":
            want = TXN_TYPES[ts]
            if want is not None and a["type"] != want:
                raise EncodeError("transaction of type %r where %s is expected" % (a["type"], ts))
            e.txns.append(a)
            e.txn_types.append(ts)
        elif k == "ref":
            members.append(("uint8", ("ref", ts, a)))
        else:
            members.append((ts, ("bytes", encode_str(ts, a))))
    if len(members) > 15:
        alone, rest = members[:14], members[14:]
        e.slots = [m for _, m in alone] + [("tuple", [t for t, _ in rest], [m for _, m in rest])]
    else:
        e.slots = [m for _, m in members]
    return e


def resolve(kind, index, accounts, assets, apps, sender, callee):
    """what index means to the callee (None = out of range)"""
    if kind == "account":
        arr = [sender] + list(accounts)
    elif kind == "application":
        arr = [callee] + list(apps)
    else:
        arr = list(assets)
    return arr[index] if 0 <= index < len(arr) else None


def check_call(e, app_args, accounts, assets, apps, txns, sender, callee):
    """Compare an observed application call (and the transactions immediately before it) with what ARC-4
    prescribes.  Returns a list of discrepancies (empty = the call is a correct ARC-4 encoding)."""
    bad = []
    if not app_args or app_args[0] != e.selector:
        bad.append("ApplicationArgs[0] is %r, selector of %r is %s" % (app_args[:1], e.sig, e.selector.hex()))
    got = list(app_args[1:])
    if len(got) != len(e.slots):
        bad.append("%d application arguments after the selector, ARC-4 prescribes %d" % (len(got), len(e.slots)))

    def one(where, exp, b):
        if exp[0] == "bytes":
            if b != exp[1]:
                bad.append("%s is %s, ARC-4 encoding of the value is %s" % (where, b.hex(), exp[1].hex()))
        else:
            _, kind, value = exp
            if len(b) != 1:
                bad.append("%s (%s reference) is %s, not a uint8" % (where, kind, b.hex()))
                return
            r = resolve(kind, b[0], accounts, assets, apps, sender, callee)
            if r != value:
                bad.append("%s (%s reference) holds index %d which resolves to %r, the value passed is %r" % (where, kind, b[0], r, value))

    for i, (exp, b) in enumerate(zip(e.slots, got)):
        where = "ApplicationArgs[%d]" % (i + 1)
        if exp[0] == "tuple":
            parts = split_tuple([parse(t) for t in exp[1]], b)
            if parts is None or len(parts) != len(exp[2]):
                bad.append("%s is not a tuple of (%s)" % (where, ",".join(exp[1])))
                continue
            for j, (m, pb) in enumerate(zip(exp[2], parts)):
                one("%s member %d" % (where, j), m, pb)
        else:
            one(where, exp, b)
    if len(txns) != len(e.txns):
        bad.append("%d transactions before the call, %d transaction arguments" % (len(txns), len(e.txns)))
    for i, (want, got_t) in enumerate(zip(e.txns, txns)):
        if want["fields"] != got_t:
            bad.append("transaction argument %d: recorded %r, passed %r" % (i, got_t, want["fields"]))
        # the transaction actually in the group must be of the type the SIGNATURE declares (last TypeEnum set wins)
        declared = TXN_TYPES[e.txn_types[i]]
        te = [v for n, v in got_t if n == "TypeEnum"]
        if declared is not None and (not te or te[-1] != declared):
            bad.append("transaction argument %d: the recorded transaction has TypeEnum %r, the signature declares %s (= %d)" % (
                i, te[-1] if te else None, e.txn_types[i], declared))
        if declared is None and not te:
            bad.append("transaction argument %d: the recorded transaction has no TypeEnum" % i)
    return bad
