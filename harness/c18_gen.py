"""C18 helpers: annotated recipes (build + wire), insertion points, hazard texts, base programs,
text-level classification of stream differences, CFG canonicalisation of TEAL statements."""
import itertools

from common import S, sx  # noqa
from build import Builder, BuildError
from gen_prog import I, B

# ------------------------------------------------------------------------------------------------
# recipe nodes added by C18 (see coq/Comp/Annotate.v):
#   ('comment', TEXT, e)          Comment(TEXT, e)
#   ('comment0', TEXT)            Comment(TEXT)                    (a statement of a Seq)
#   ('nonce', BASE, NONCE, e)     Nonce(BASE, NONCE, e)
#   ('pragma', CONSTRAINT, e)     Pragma(e, compiler_version=CONSTRAINT)
#   ('assert', conds, TEXT)       Assert(*conds, comment=TEXT)      (already in build.py)
# ------------------------------------------------------------------------------------------------


def latin1(s):
    try:
        s.encode("latin-1")
        return True
    except UnicodeEncodeError:
        return False


class ABuilder(Builder):
    """Builder that knows the annotation nodes; the wire form carries marker nodes which the model's
    [expand] replaces by annot_comment / annot_comment0 / annot_nonce / annot_pragma / annot_assert, so that
    splitlines and the wrapping are computed by the Coq model, not by Python."""

    def __init__(self, pt):
        super().__init__(pt)
        self.nonce_lits = {}
        self.sub_defs = []       # [(key, name, ret, nparams, body)]

    # ---- subroutines: zero or more by-value parameters ----
    def def_sub(self, key, name, ret, nparams, body):
        pt = self.pt
        me = self

        def run(args):
            saved = me.params
            me.params = list(args)
            try:
                return me.build(body)
            finally:
                me.params = saved

        if nparams == 0:
            fn = lambda: run(())  # noqa
        elif nparams == 1:
            fn = lambda a: run((a,))  # noqa
        elif nparams == 2:
            fn = lambda a, b: run((a, b))  # noqa
        else:
            raise BuildError("nparams")
        fn.__name__ = "sub_" + key
        w = pt.Subroutine(self.TY[ret], name=name)(fn) if name is not None else pt.Subroutine(self.TY[ret])(fn)
        self.subs[key] = {"wrapper": w, "id": w.subroutine.id, "ret": ret, "name": w.name(), "nparams": nparams, "body": body}
        self.sub_defs.append(key)
        return w

    def build(self, r):
        pt = self.pt
        if isinstance(r, tuple) and r:
            k = r[0]
            if k == "comment":
                return pt.Comment(r[1], self.build(r[2]))
            if k == "comment0":
                return pt.Comment(r[1])
            if k == "nonce":
                e = pt.Nonce(r[1], r[2], self.build(r[3]))
                return e
            if k == "pragma":
                return pt.Pragma(self.build(r[2]), compiler_version=r[1])
        return super().build(r)

    def nonce_lit(self, base, nonce):
        """the byte-constant spelling Bytes(base, nonce) assembles to, read back from the real object"""
        pt = self.pt
        from pyteal.compiler.compiler import CompileOptions
        b = pt.Bytes(nonce) if base == "utf8" else pt.Bytes(base, nonce)
        start, _ = b.__teal__(CompileOptions(version=6, mode=pt.Mode.Application))
        return start.ops[0].args[0]

    def wire(self, r):
        if isinstance(r, tuple) and r:
            k = r[0]
            if k == "comment":
                return '(op "//" ("@comment" %s) n (%s))' % (sx(r[1]), self.wire(r[2]))
            if k == "comment0":
                return '(op "//" ("@comment" %s) n ())' % sx(r[1])
            if k == "nonce":
                return '(op "//" ("@nonce" %s) n (%s))' % (sx(self.nonce_lit(r[1], r[2])), self.wire(r[3]))
            if k == "pragma":
                return '(op "//" ("@pragma") n (%s))' % self.wire(r[2])
            if k == "op" and r[1] == "//":
                return '(op "//" ("@comment" %s) n ())' % sx(r[2][0])
            if k == "assert" and len(r) > 2 and r[2] is not None:
                conds = "(" + " ".join(self.wire(x) for x in r[1]) + ")"
                return '(assert %s (comment "@raw" %s))' % (conds, sx(r[2]))
            if k == "param":
                return "(param %d)" % r[1]
        return super().wire(r)

    def wire_subs(self):
        out = []
        for key in self.sub_defs:
            d = self.subs[key]
            if d["nparams"] != 0:
                raise BuildError("wire: subroutine with parameters")
            out.append("(sub %d %s %s (params) %s)" % (d["id"], sx(d["name"]), d["ret"], self.wire(d["body"])))
        return " ".join(out)


def nonce_value(base, nonce):
    """the bytes a nonce stands for (independent of PyTeal)"""
    import base64
    if base == "utf8":
        return nonce.encode("utf-8")
    if base == "base16":
        return bytes.fromhex(nonce[2:] if nonce.startswith("0x") else nonce)
    if base == "base32":
        return base64.b32decode(nonce + "=" * (-len(nonce) % 8))
    if base == "base64":
        return base64.b64decode(nonce)
    raise ValueError(base)


def recipe_latin1(r):
    if isinstance(r, str):
        return latin1(r)
    if isinstance(r, tuple):
        return all(recipe_latin1(x) for x in r)
    return True


# ------------------------------------------------------------------------------------------------
# positions in a recipe
# ------------------------------------------------------------------------------------------------
def get(r, path):
    for i in path:
        r = r[i]
    return r


def put(r, path, new):
    if not path:
        return new
    i = path[0]
    return r[:i] + (put(r[i], path[1:], new),) + r[i + 1:]


def child_paths(r):
    """paths (relative) of the direct sub-expressions of node r"""
    if not isinstance(r, tuple) or not r:
        return []
    k = r[0]
    if k == "op":
        return [(4, i) for i in range(len(r[4]))]
    if k == "nary":
        return [(3, i) for i in range(len(r[3]))]
    if k == "seq":
        return [(i,) for i in range(1, len(r))]
    if k == "if":
        return [(i,) for i in range(1, len(r))]
    if k == "cond":
        return [(i, j) for i in range(1, len(r)) for j in (0, 1)]
    if k == "while":
        return [(1,), (2,)]
    if k == "for":
        return [(1,), (2,), (3,), (4,)]
    if k == "assert":
        return [(1, i) for i in range(len(r[1]))]
    if k == "return":
        return [(1,)] if len(r) > 1 else []
    if k == "exit":
        return []                       # Approve/Reject: the constant is not a separate PyTeal expression
    if k == "multi":
        return [(3, i) for i in range(len(r[3]))]
    if k == "call":
        return [(2, i) for i in range(len(r[2]))]
    if k == "wide":
        return [(1, i) for i in range(len(r[1]))] + [(2, i) for i in range(len(r[2]))]
    if k == "comment":
        return [(2,)]
    if k == "nonce":
        return [(3,)]
    if k == "pragma":
        return [(2,)]
    return []


def all_paths(r, prefix=()):
    """every expression node of the recipe, root included"""
    out = [prefix]
    for p in child_paths(r):
        out += all_paths(get(r, p), prefix + p)
    return out


def role_of(root, path):
    """a short description of where the node sits (for the coverage histogram)"""
    if not path:
        return "root"
    # find the parent: longest proper prefix that is a node path
    for cut in (1, 2):
        if len(path) >= cut:
            parent = get(root, path[:-cut])
            if isinstance(parent, tuple) and parent and isinstance(parent[0], str) and path[-cut:] in child_paths(parent):
                k = parent[0]
                step = path[-cut:]
                if k == "if":
                    return "if." + ["", "cond", "then", "else"][step[0]]
                if k == "while":
                    return "while." + ["", "cond", "body"][step[0]]
                if k == "for":
                    return "for." + ["", "init", "cond", "step", "body"][step[0]]
                if k == "cond":
                    return "cond." + ("cond" if step[1] == 0 else "value")
                if k == "seq":
                    return "seq.last" if step[0] == len(parent) - 1 else "seq.stmt"
                if k in ("op", "nary", "multi", "call", "wide"):
                    return k + ".operand"
                return k + ".child"
    return "?"


# ------------------------------------------------------------------------------------------------
# hazard texts
# ------------------------------------------------------------------------------------------------
LINEBREAKS = ["\n", "\r", "\r\n", "\x0b", "\x0c", "\x1c", "\x1d", "\x1e", "\x85", " ", " "]

TEXTS = [
    "hi", "", " ", "a b c", "two\nlines", "x\nint 0\nreturn", "x\rint 0\rreturn", "x\r\nerr", "\n", "\n\n", "\nerr", "err\n",
    "a // b", "// already", "a; err", "; err ;", '"', 'say "hi"', "'q'", '\\', '\\n', 'a\\', '"; err; "', 'byte "x', "*/ /*", "(* x *)",
    "#pragma version 2", "label:", "main_l0:", "b main_l0", "callsub f_0", "base64(AA==)", "b64 AA//", "0x", "int 0", "\t tab \t",
    "caf\xe9 \xfc\xdf", "\xff\x00\x01", "中文 \U0001F600", "a\x0bb", "a\x0cb", "a\x1cb", "a\x1db", "a\x1eb", "a\x85b", "a b", "a b",
    "a int 0 return", "a\x85err", "a\x0berr", "x" * 5000, ("line\n" * 200), "\x00", "\x1f", "trailing space ", " leading",
]

NAMES = [
    "f", "foo", "", " ", "my sub", "foo\nint 0\nreturn", "foo\nerr", "x\n", "\nx", "a\n\nb", "foo\rint 0\rreturn", "foo\r\nint 0", "a\x0bint 0", "a\x0cerr",
    "a\x1cerr", "a\x1derr", "a\x1eerr", "a\x85err", "a err", "a err", "a//b", "a;err", "a; err", 'q"uote', "colon:", "main", "main_l0", "l0", "0", "_",
    "f_0", "caf\xe9", "中文", "x" * 300, "a b;c//d\r\"x", "#pragma version 2", "b main_l0", "-", "*/", "retsub", "f\n// g\nf_0:",
]


def _junk(n):
    return ("-+" * n)[:n]


# long names: more non-alphanumeric characters than any fixed budget, followed by hazard tails
LONG_NAMES = [_junk(n) + tail for n in (255, 256, 257, 300, 600)
              for tail in ("x\nint 0\nreturn\n//", " x y", ":", "x\rerr")]
LONG_NAMES_QUICK = [_junk(257) + "x\nint 0\nreturn\n//", _junk(256) + " x y", _junk(255) + "x\nerr", _junk(300) + ":", _junk(600) + "x\nint 0\nreturn\n//",
                    "a1" + _junk(400) + "\nerr\n" + _junk(300) + "b2 c3"]


# ------------------------------------------------------------------------------------------------
# base programs (plain: no annotation)
# ------------------------------------------------------------------------------------------------
FEE = ("op", "txn", ("Fee",), "u", ())
C1 = ("op", "<", (), "u", (FEE, I(3)))
C2 = ("op", ">", (), "u", (("op", "txn", ("Amount",), "u", ()), I(1000)))
POP1 = ("op", "pop", (), "n", (I(1),))
POP2 = ("op", "pop", (), "n", (I(2),))
APPROVE = ("exit", I(1))
REJECT = ("exit", I(0))


def st(key, e):
    return ("op", "store", (("slot", key),), "n", (e,))


def ld(key, ty="u"):
    return ("op", "load", (("slot", key),), ty, ())


def base_programs():
    """(name, recipe, subs) — subs: list of (key, name, ret, nparams, body). Hand-written programs covering every
    control construct, empty blocks, store/load adjacency, returns in tail position, subroutines."""
    out = []
    add = lambda n, r, subs=(): out.append((n, r, list(subs)))  # noqa
    add("if-empty", ("seq", ("if", C1, ("seq",)), APPROVE))
    add("if-empty-else", ("seq", ("if", C1, ("seq",), ("seq",)), APPROVE))
    add("if-pop", ("seq", ("if", C1, POP1), APPROVE))
    add("if-else", ("seq", ("if", C1, POP1, POP2), APPROVE))
    add("if-nested", ("seq", ("if", C1, ("if", C2, POP1), ("seq", POP2)), APPROVE))
    add("if-value", ("return", ("if", C1, I(1), I(0))))
    add("cond", ("cond", (C1, ("seq", POP1, APPROVE)), (C2, REJECT), (I(1), ("seq", POP2, APPROVE))))
    add("cond-empty-arms", ("seq", ("cond", (C1, ("seq",)), (I(1), ("seq",))), APPROVE))
    add("while", ("seq", st("i", I(0)), ("while", ("op", "<", (), "u", (ld("i"), I(3))), ("seq", st("i", ("nary", "+", "u", (ld("i"), I(1)))))), APPROVE))
    add("while-empty", ("seq", ("while", I(0), ("seq",)), APPROVE))
    add("while-break", ("seq", st("i", I(0)), ("while", I(1), ("seq", st("i", ("nary", "+", "u", (ld("i"), I(1)))), ("if", ("op", ">", (), "u", (ld("i"), I(2))), "break"), ("if", C1, "continue"), POP1)), APPROVE))
    add("for", ("seq", ("for", st("j", I(0)), ("op", "<", (), "u", (ld("j"), I(2))), st("j", ("nary", "+", "u", (ld("j"), I(1)))), ("seq", POP1, ("if", C1, "break"))), APPROVE))
    add("for-empty", ("seq", ("for", ("seq",), I(0), ("seq",), ("seq",)), APPROVE))
    add("assert", ("seq", ("assert", (C1,)), ("assert", (C1, C2)), APPROVE))
    add("store-load", ("seq", st("x", FEE), ("return", ld("x"))))
    add("store-load-2", ("seq", st("x", FEE), st("y", ld("x")), POP1, ("return", ("nary", "+", "u", (ld("y"), I(1))))))
    add("nary", ("return", ("nary", "+", "u", (I(1), FEE, ("nary", "*", "u", (I(2), I(3)))))))
    add("bytes", ("seq", ("op", "pop", (), "n", (("nary", "concat", "b", (B(b"ab"), B(b"cd"))),)), ("return", ("op", "len", (), "u", (("op", "txn", ("Note",), "b", ()),)))))
    add("wide", ("return", ("wide", (FEE, I(7)), (I(3),))))
    add("seq-nested", ("seq", ("seq",), ("seq", ("seq", POP1), ("seq",)), ("seq", POP2, APPROVE)))
    add("maybe", ("seq", ("multi", "app_global_get_ex", (), (I(0), B(b"k1")), 2, "mv1"), ("return", ld(("mv1", 1)))))
    add("log-put", ("seq", ("op", "log", (), "n", (B(b"hello"),)), ("op", "app_global_put", (), "n", (B(b"k1"), FEE)), APPROVE))
    add("bare-int", I(1))
    add("tail-return-in-if", ("seq", POP1, ("if", C1, ("return", I(1)), ("return", I(0)))))
    # exit statements inside arms / loop bodies with MORE code after the enclosing construct (a Comment right after the exit
    # must not keep the arm's block alive): 3 arms, a variable stored on the last arm only and loaded after the join
    C3 = ("op", "==", (), "u", (("op", "txn", ("TypeEnum",), "u", ()), I(6)))
    add("exit-in-arms-var", ("seq", ("if", C1, ("seq", APPROVE), ("if", C2, ("seq", POP1, APPROVE), st("k", I(7)))), ("return", ld("k"))))
    add("exit-in-arms", ("seq", ("if", C1, ("seq", POP1, APPROVE), ("if", C2, ("seq", REJECT), ("if", C3, ("seq", ("return", I(1))), POP2))), POP1, ("return", I(1))))
    add("exit-in-cond", ("seq", ("cond", (C1, ("seq", APPROVE)), (C2, ("seq", POP1, REJECT)), (C3, ("seq", ("op", "err", (), "n", ()))), (I(1), POP2)), st("k", FEE), ("return", ld("k"))))
    add("exit-in-loop", ("seq", st("i", I(0)), ("while", ("op", "<", (), "u", (ld("i"), I(3))),
                                 ("seq", st("i", ("nary", "+", "u", (ld("i"), I(1)))), ("if", C1, ("seq", APPROVE)), ("if", C2, ("seq", POP1, ("return", I(0)))))), POP2, APPROVE))
    add("exit-then-dead-assert", ("seq", ("if", C1, ("seq", REJECT, ("assert", (C2,)))), ("if", C2, ("seq", APPROVE, POP1), POP2), POP1, APPROVE))
    # subroutines
    add("sub-none", ("seq", ("call", "f", ()), APPROVE), [("f", None, "n", 0, ("seq", POP1))])
    add("sub-ret", ("seq", ("call", "f", ()), APPROVE), [("f", None, "n", 0, ("seq", POP1, ("return",)))])
    add("sub-uint", ("return", ("nary", "+", "u", (("call", "f", ()), I(1)))), [("f", None, "u", 0, ("seq", POP1, ("return", FEE)))])
    add("sub-two", ("seq", ("call", "f", ()), ("op", "pop", (), "n", (("call", "g", ()),)), APPROVE),
        [("f", None, "n", 0, ("if", C1, POP1, POP2)), ("g", None, "u", 0, ("if", C1, I(1), I(2)))])
    add("sub-arg", ("return", ("call", "f", (FEE,))), [("f", None, "u", 1, ("nary", "+", "u", (("param", 0), I(1))))])
    add("sub-args2", ("return", ("call", "f", (FEE, I(2)))), [("f", None, "u", 2, ("seq", POP1, ("op", "-", (), "u", (("param", 0), ("param", 1)))))])
    add("sub-exit-in-arm", ("return", ("call", "f", ())),
        [("f", None, "u", 0, ("seq", ("if", C1, ("seq", ("return", I(1))), ("if", C2, ("seq", POP1, ("return", I(2))), st("k", I(7)))), ("return", ld("k"))))])
    add("sub-none-exit-in-arm", ("seq", ("call", "f", ()), APPROVE),
        [("f", None, "n", 0, ("seq", ("if", C1, ("seq", ("return",)), ("if", C2, ("seq", POP1, ("return",)), POP2)), POP1))])
    add("sub-rec", ("return", ("call", "f", (I(3),))),
        [("f", None, "u", 1, ("if", ("op", "==", (), "u", (("param", 0), I(0))), I(1), ("nary", "*", "u", (("param", 0), ("call", "f", (("op", "-", (), "u", (("param", 0), I(1))),))))))])
    return out


# ------------------------------------------------------------------------------------------------
# variants: one annotation applied at one insertion point
# ------------------------------------------------------------------------------------------------
def seq_insert_points(recipe):
    """(path_of_seq, index) for every Seq and every position 1..len (before each statement and after the last)"""
    out = []
    for p in all_paths(recipe):
        n = get(recipe, p)
        if isinstance(n, tuple) and n and n[0] == "seq":
            for i in range(1, len(n) + 1):
                out.append((p, i))
    return out


def assert_points(recipe):
    return [p for p in all_paths(recipe) if isinstance(get(recipe, p), tuple) and get(recipe, p)[:1] == ("assert",)]


def apply_wrap(recipe, path, kind, text, extra=None):
    node = get(recipe, path)
    if kind == "comment":
        new = ("comment", text, node)
    elif kind == "pragma":
        new = ("pragma", text, node)
    elif kind == "nonce":
        new = ("nonce", extra[0], extra[1], node)
    else:
        raise ValueError(kind)
    return put(recipe, path, new)


def apply_insert(recipe, seq_path, idx, text):
    n = get(recipe, seq_path)
    return put(recipe, seq_path, n[:idx] + (("comment0", text),) + n[idx:])


def apply_assert_comment(recipe, path, text):
    n = get(recipe, path)
    return put(recipe, path, ("assert", n[1], text))


# ------------------------------------------------------------------------------------------------
# text-level classification and CFG canonicalisation (on tokenised statements from the model)
# ------------------------------------------------------------------------------------------------
BRANCHES = {"b", "bz", "bnz"}
TERMINATORS = {"return", "retsub", "err"}


def is_label(st_):
    return len(st_) == 1 and st_[0].endswith(":") and len(st_[0]) > 1


def classify_lines(teal):
    """kinds of the physical lines of a TEAL text: 'comment', 'label', 'branch', 'term', 'op', 'blank', 'pragma'"""
    out = []
    for ln in teal.split("\n"):
        s = ln.strip()
        if not s:
            out.append(("blank", ln))
        elif s.startswith("//"):
            out.append(("comment", ln))
        elif s.startswith("#pragma"):
            out.append(("pragma", ln))
        else:
            w = s.split()[0]
            if len(s.split()) == 1 and s.endswith(":"):
                out.append(("label", ln))
            elif w in BRANCHES:
                out.append(("branch:" + w, ln))
            elif w in TERMINATORS:
                out.append(("term", ln))
            else:
                out.append(("op", ln))
    return out


def has_comment_only_block(teal):
    """class predicate A: a run of comment lines that forms a basic block on its own — immediately preceded by a
    label or a branch (or the start of a routine) and immediately followed by a label, an unconditional branch or the end"""
    kinds = [k for k in classify_lines(teal) if k[0] != "blank"]
    n = len(kinds)
    i = 0
    while i < n:
        if kinds[i][0] == "comment":
            j = i
            while j < n and kinds[j][0] == "comment":
                j += 1
            prev = kinds[i - 1][0] if i > 0 else "start"
            nxt = kinds[j][0] if j < n else "end"
            if (prev in ("label", "start", "pragma", "term") or prev.startswith("branch:")) and (nxt in ("label", "end", "branch:b")):
                return True
            i = j
        else:
            i += 1
    return False


def has_store_comment_load(teal):
    """class predicate B: store k, one or more comment lines, load k"""
    kinds = [k for k in classify_lines(teal) if k[0] != "blank"]
    for i, (k, ln) in enumerate(kinds):
        w = ln.split()
        if k == "op" and len(w) == 2 and w[0] == "store":
            j = i + 1
            while j < len(kinds) and kinds[j][0] == "comment":
                j += 1
            if j > i + 1 and j < len(kinds):
                w2 = kinds[j][1].split()
                if len(w2) == 2 and w2[0] == "load" and w2[1] == w[1]:
                    return True
    return False


def cfg_canon(stmts):
    """Layout-independent form of a statement list (token lists, comments already gone): basic blocks, jumps threaded
    through empty blocks, unreachable blocks dropped, straight-line chains merged, blocks numbered in DFS order from the
    entry and then from each callsub target.  Two programs with the same canonical form execute the same instructions
    in the same order on every path."""
    stmts = [list(s) for s in stmts if s and s[0] != "#pragma"]
    blocks = []
    cur = {"labels": [], "ops": []}

    def close(term, target=None):
        nonlocal cur
        cur["term"], cur["target"] = term, target
        blocks.append(cur)
        cur = {"labels": [], "ops": []}

    for s in stmts:
        if is_label(s):
            if cur["ops"]:
                close("fall")
            cur["labels"].append(s[0][:-1])
        elif s[0] in BRANCHES and len(s) == 2:
            close(s[0], s[1])
        elif s[0] in TERMINATORS:
            cur["ops"].append(tuple(s))
            close("end")
        else:
            cur["ops"].append(tuple(s))
    close("fall")
    n = len(blocks)
    label_at = {}
    for i, b in enumerate(blocks):
        for l in b["labels"]:
            label_at.setdefault(l, i)

    def raw_succs(i):
        b = blocks[i]
        nxt = i + 1 if i + 1 < n else None
        t = b["term"]
        if t == "end":
            return []
        if t == "fall":
            return [("next", nxt)]
        tgt = label_at.get(b["target"], ("?", b["target"]))
        if t == "b":
            return [("next", tgt)]
        if t == "bnz":
            return [("false", nxt), ("true", tgt)]
        return [("false", tgt), ("true", nxt)]

    def thread(i):
        seen = set()
        while isinstance(i, int) and i not in seen:
            b = blocks[i]
            if b["ops"] or b["term"] not in ("fall", "b"):
                return i
            seen.add(i)
            ss = raw_succs(i)
            i = ss[0][1] if ss else None
        return i if not (isinstance(i, int) and i in seen) else ("loop", i)

    def call_targets(ops):
        return [thread(label_at[op[1]]) for op in ops if op[0] == "callsub" and len(op) == 2 and op[1] in label_at]

    entry = thread(0)
    nodes = {}
    roots = [entry]
    work = [entry]
    while work:
        i = work.pop()
        if not isinstance(i, int) or i in nodes:
            continue
        edges = [(k, thread(t)) for k, t in raw_succs(i)]
        nodes[i] = {"ops": list(blocks[i]["ops"]), "edges": edges}
        for r in call_targets(blocks[i]["ops"]):
            if r not in roots:
                roots.append(r)
            work.append(r)
        for _, t in edges:
            work.append(t)
    preds = {}
    for i, nd in nodes.items():
        for _, t in nd["edges"]:
            preds[t] = preds.get(t, 0) + 1
    # call targets as written in ops: remember the node they denote before merging
    changed = True
    while changed:
        changed = False
        for i in list(nodes):
            if i not in nodes:
                continue
            e = nodes[i]["edges"]
            if len(e) == 1 and e[0][0] == "next" and isinstance(e[0][1], int) and e[0][1] != i and preds.get(e[0][1], 0) == 1 and e[0][1] not in roots:
                t = e[0][1]
                nodes[i]["ops"] += nodes[t]["ops"]
                nodes[i]["edges"] = nodes[t]["edges"]
                del nodes[t]
                changed = True
    ids = {}
    order = []

    def number(root):
        stack = [root]
        while stack:
            i = stack.pop()
            if not isinstance(i, int) or i in ids or i not in nodes:
                continue
            ids[i] = len(ids)
            order.append(i)
            for _, t in reversed(nodes[i]["edges"]):
                stack.append(t)

    for r in roots:
        number(r)
    name = lambda t: ("B%d" % ids[t]) if isinstance(t, int) and t in ids else ("END" if t is None else repr(t))  # noqa
    res = []
    for i in order:
        ops = []
        for op in nodes[i]["ops"]:
            if op[0] == "callsub" and len(op) == 2 and op[1] in label_at:
                ops.append(("callsub", name(thread(label_at[op[1]]))))
            else:
                ops.append(op)
        res.append((ids[i], tuple(ops), tuple((k, name(t)) for k, t in nodes[i]["edges"])))
    return res
