"""C07 — ABI decoding and element access return the encoded components.

Parts (DESIGN §2.4):
  1. proofs          Props/C07.v (+ Proofs/ABIIndex*.v): index_tuple_correct, array_elem_correct, length_correct,
                     bytes_get_correct, decode_whole_correct, uint_decode_correct, substring_choice_correct,
                     array_oob_fails_static_elems, array_oob_bool_*, array_oob_zero_length_*, array_oob_refuted
  2. correspondence  (a) structure: the expression tree the REAL _index_tuple / ArrayElement.store_into / length / get /
                     decode build (str(expr), normalised) == the model's plan text — exhaustive over tuple shapes up
                     to a width bound x every index, arrays over an element universe, named tuples, random deeper
                     (b) the three op selectors of substring.py: real __teal__ op list == model selector, boundary grid x
                     versions 2..10
                     (c) behaviour: every AVM run below is also compared with exec_plan of the model on the same bytes
                     (also on damaged encodings and out-of-range indices)
  3. semantic oracle programs built with the REAL PyTeal (decode from Txn.application_args[0], access, log, approve),
                     both storage back-ends, versions 5..10, run on the extracted AVM; expected = algosdk encoding of
                     the component; in range => exact bytes; out of range => must fail unless a known-finding class
  4. known findings  replayed against the real code
  5. search          a broken proof / structural tie triggers directed runs on the disagreeing shapes; failures are shrunk
"""
import itertools
import json
import multiprocessing
import os
import sys
import time

from common import *  # noqa

ensure_env()
import c19_abi as AB  # noqa: E402
import c07_abi as C7  # noqa: E402
import c07_run as R  # noqa: E402

CORPUS = os.path.join(VERIF, "harness", "corpus", "c07.json")
U64 = 1 << 64

PROOF_FILES = ["Proofs/ABISpecProof.v", "Proofs/ABIIndexBits.v", "Proofs/ABIIndexAsm.v", "Proofs/ABIIndexElems.v",
               "Proofs/ABIIndexSel.v", "Proofs/ABIIndexWalk.v", "Proofs/ABIIndexExec.v", "Proofs/ABIIndexTuple.v",
               "Proofs/ABIIndexArray.v", "Proofs/ABIIndexDecode.v", "Proofs/ABIIndexOob.v"]


# ---------------------------------------------------------------------------------------------
# values
# ---------------------------------------------------------------------------------------------
def vj(v):
    """value -> json"""
    if isinstance(v, (bytes, bytearray)):
        return {"b": bytes(v).hex()}
    if isinstance(v, list):
        return [vj(x) for x in v]
    return v


def jv(j):
    if isinstance(j, dict):
        return bytes.fromhex(j["b"])
    if isinstance(j, list):
        return [jv(x) for x in j]
    return j


def sdk_enc(t, v):
    r = AB.sdk_encode(AB.to_sdk(t), v)
    if r[0] != "ok":
        raise ValueError("reference codec rejects %r at %s: %s" % (v, AB.arc4_str(t), r[1]))
    return r[1]


def gen_val(t, rng, maxlen=4):
    return AB.gen_value(C7.layout(t), rng, text=True, maxlen=maxlen)


def gen_array_val(t, n, rng):
    e, sl = C7.array_info(t)
    L = C7.layout(e)
    if L == ("uint", 8):
        b = AB.utf8_bytes(rng, n)[:n] if n else b""
        try:
            b.decode("utf-8")
        except UnicodeDecodeError:
            b = bytes(rng.randrange(0x20, 0x7F) for _ in range(n))
        if len(b) != n:
            b = bytes(rng.randrange(0x20, 0x7F) for _ in range(n))
        return b
    return [AB.gen_value(L, rng, text=True, maxlen=3) for _ in range(n)]


def elems(v):
    return list(v) if isinstance(v, (bytes, bytearray)) else v


def damage(enc, rng):
    b = bytearray(enc)
    how = rng.randrange(5)
    if how == 0 and b:
        b[rng.randrange(len(b))] ^= 1 << rng.randrange(8)
    elif how == 1 and b:
        b = b[: rng.randrange(len(b))]
    elif how == 2:
        b += bytes(rng.randrange(256) for _ in range(rng.choice([1, 2, 5])))
    elif how == 3 and b:
        b[rng.randrange(len(b))] = rng.choice([0, 1, 2, 0xFF, rng.randrange(256)])
    else:
        b = bytearray(rng.randrange(256) for _ in range(rng.choice([0, 1, 2, 3, 8, 17])))
    return bytes(b)


def oob_indices(n, thorough=False):
    c8 = 8 * ((n + 7) // 8)
    c = [n, n + 1, c8 - 1, c8, c8 + 7, 255, 256, 65535, 65536, (1 << 32), (1 << 63), U64 - 1]
    if thorough:
        c += [n + 2, c8 + 1, c8 + 8, 4095, 4096, 32767, (1 << 16) + n, (1 << 61), U64 - 2]
    out = []
    for x in c:
        if n <= x < U64 and x not in out:
            out.append(x)
    return out


def in_indices(n):
    return list(range(n)) if n <= 10 else sorted(set([0, 1, 7, 8, 9, n // 2, n - 2, n - 1]))


# ---------------------------------------------------------------------------------------------
# jobs
# ---------------------------------------------------------------------------------------------
def can_annotate(t):
    try:
        AB.to_pyteal(t).annotation_type()
        return True
    except Exception:  # noqa
        return False


def pick_cfg(k, t, thorough, allow_abi=True):
    """(version, backend) configurations for the k-th job"""
    cfgs = [(5, "scratch"), (8, "frame"), (6, "scratch"), (10, "frame"), (7, "scratch"), (9, "frameabi"), (8, "scratch"),
            (8, "frameabi"), (10, "scratch"), (9, "frame"), (9, "scratch"), (10, "frameabi")]
    if thorough:
        out = list(cfgs)
    else:
        out = [cfgs[k % len(cfgs)]]
    res = []
    for (v, b) in out:
        if b == "frameabi" and not (allow_abi and can_annotate(t)):
            b = "frame"
        if (v, b) not in res:
            res.append((v, b))
    return res


def tuple_jobs(t, rng, k, thorough, nvals=2, kinds=("tuple",), idxs=None):
    ts = AB.children(t)
    jobs = []
    vals = [gen_val(t, rng) for _ in range(nvals)]
    encs = [sdk_enc(t, v) for v in vals]
    if any(len(e_) > 2000 for e_ in encs):
        raise ValueError("encoding too long for a log-based oracle")
    for i in (idxs if idxs is not None else range(len(ts))):
        et = ts[i]
        runs = []
        for v, enc in zip(vals, encs):
            runs.append({"enc": enc.hex(), "idx": None, "tag": "in", "expect": sdk_enc(et, v[i]).hex(), "n": 0})
        if any(len(r_["expect"]) > 2000 for r_ in runs):
            continue        # component longer than the AVM's 1024-byte log limit
        runs.append({"enc": damage(encs[0], rng).hex(), "idx": None, "tag": "bad", "expect": None, "n": 0})
        for (ver, backend) in pick_cfg(k + i, t, thorough, allow_abi=len(ts) <= 5):
            kind = kinds[(k + i) % len(kinds)]
            if kind == "named" and (len(ts) == 0 or not all(can_annotate(x) for x in ts)):
                kind = "tuple"
            job = {"kind": kind, "t": t, "i": i, "index": None, "ver": ver, "backend": backend,
                   "mode": ["store", "use"][(k + i) % 2], "logmode": "encode", "runs": runs}
            if R.is_scalar(et) and (k + i) % 3 == 0:
                # x.get() on the extracted uint / bool
                job = dict(job, logmode="get", runs=[dict(r_, expect=(int.from_bytes(bytes.fromhex(r_["expect"]), "big") if et != "bool" else (1 if r_["expect"] == "80" else 0)).to_bytes(8, "big").hex()) if r_["tag"] == "in" else r_ for r_ in runs])
            jobs.append(job)
    return jobs


def array_runs(t, rng, thorough, ns=None):
    e, sl = C7.array_info(t)
    runs = []
    if sl is not None:
        ns = [sl]
    elif ns is None:
        ns = [0, 1, 3, 8, 9] if not thorough else [0, 1, 2, 3, 7, 8, 9, 16, 17]
    for n in ns:
        v = gen_array_val(t, n, rng)
        enc = sdk_enc(t, v)
        if len(enc) > 900:
            continue
        ev = elems(v)
        for i in in_indices(n):
            runs.append({"enc": enc.hex(), "idx": i, "tag": "in", "expect": sdk_enc(e, ev[i]).hex(), "n": n})
        for i in oob_indices(n, thorough):
            runs.append({"enc": enc.hex(), "idx": i, "tag": "oob", "expect": None, "n": n})
        runs.append({"enc": damage(enc, rng).hex(), "idx": rng.choice([0, 1, n, max(0, n - 1)]), "tag": "bad", "expect": None, "n": n})
    return runs


def array_jobs(t, rng, k, thorough):
    """run-time index jobs + constant-index jobs for array type t"""
    jobs = []
    e, sl = C7.array_info(t)
    runs = array_runs(t, rng, thorough)
    for (ver, backend) in pick_cfg(k, t, thorough):
        job = {"kind": "array", "t": t, "i": None, "index": None, "ver": ver, "backend": backend,
               "mode": ["store", "use"][k % 2], "logmode": "encode", "runs": runs}
        if R.is_scalar(e) and k % 3 == 1:
            job = dict(job, logmode="get", runs=[dict(r_, expect=(int.from_bytes(bytes.fromhex(r_["expect"]), "big") if e != "bool" else (1 if r_["expect"] == "80" else 0)).to_bytes(8, "big").hex()) if r_["tag"] == "in" else r_ for r_ in runs])
        jobs.append(job)
    # constant indices: one compilation per index
    seen = set()
    cruns = [r_ for r_ in runs if r_["tag"] != "bad"]
    for r_ in cruns:
        n, i = r_["n"], r_["idx"]
        interesting = (r_["tag"] == "in" and i in (0, n - 1, 7, 8)) or (r_["tag"] == "oob" and i in (n, n + 1, 8 * ((n + 7) // 8) - 1, 8 * ((n + 7) // 8), 65536, U64 - 1))
        if not interesting:
            continue
        for cm in ("py", "int"):
            if cm == "py" and (k + i) % 2 and not thorough:
                continue
            if (n, i, cm) in seen:
                continue
            seen.add((n, i, cm))
            ver, backend = pick_cfg(k + i + len(seen), t, False)[0]
            jobs.append({"kind": "array", "t": t, "i": None, "index": [cm, i], "ver": ver, "backend": backend, "mode": "store",
                         "logmode": "encode", "runs": [dict(r_, idx=None)]})
    # length()
    lruns = []
    for n in sorted(set(r_["n"] for r_ in runs)):
        enc = next(r_["enc"] for r_ in runs if r_["n"] == n and r_["tag"] != "bad")
        lruns.append({"enc": enc, "idx": None, "tag": "in", "expect": n.to_bytes(8, "big").hex(), "n": n})
    ver, backend = pick_cfg(k + 5, t, False)[0]
    jobs.append({"kind": "length", "t": t, "i": None, "index": None, "ver": ver, "backend": backend, "mode": "store", "logmode": "encode", "runs": lruns})
    return jobs


def nested_jobs(t, j, rng, k, thorough):
    """array member j of tuple t: t[j] -> arr; arr[idx]"""
    at = AB.children(t)[j]
    e, sl = C7.array_info(at)
    runs = []
    for rep in range(3 if not thorough else 6):
        v = gen_val(t, rng)
        if sl is None:
            n = rng.choice([0, 1, 2, 3, 8, 9])
            v[j] = gen_array_val(at, n, rng)
        n = len(elems(v[j]))
        enc = sdk_enc(t, v)
        ev = elems(v[j])
        for i in in_indices(n):
            runs.append({"enc": enc.hex(), "idx": i, "tag": "in", "expect": sdk_enc(e, ev[i]).hex(), "n": n})
        for i in oob_indices(n)[:7]:
            runs.append({"enc": enc.hex(), "idx": i, "tag": "oob", "expect": None, "n": n})
    jobs = []
    for (ver, backend) in pick_cfg(k, t, thorough):
        jobs.append({"kind": "nested", "t": t, "i": j, "index": None, "ver": ver, "backend": backend, "mode": "store", "logmode": "encode", "runs": runs})
    return jobs


def get_jobs(t, rng, k, thorough):
    runs = []
    for rep in range(3):
        v = gen_val(t, rng, maxlen=6)
        enc = sdk_enc(t, v)
        if R.is_scalar(t):
            exp = (int(v) if t != "bool" else (1 if v else 0)).to_bytes(8, "big")
        else:
            exp = bytes(v)
        runs.append({"enc": enc.hex(), "idx": None, "tag": "in", "expect": exp.hex(), "n": 0})
    runs.append({"enc": damage(bytes.fromhex(runs[0]["enc"]), rng).hex(), "idx": None, "tag": "bad", "expect": None, "n": 0})
    return [{"kind": "get", "t": t, "i": None, "index": None, "ver": ver, "backend": backend, "mode": "store", "logmode": "encode", "runs": runs}
            for (ver, backend) in pick_cfg(k, t, thorough)]


# ---------------------------------------------------------------------------------------------
# pool
# ---------------------------------------------------------------------------------------------
_W = {}


def _worker(chunk):
    import pyteal as pt
    if "m" not in _W:
        _W["m"] = Model("c07")
    out = []
    for job in chunk:
        if "t" in job:
            job = dict(job, t=R.tj(job["t"]))
        try:
            out.append(R.execute_job(pt, _W["m"], job))
        except Exception as e:  # noqa  (harness-side problem: reported, never silently dropped)
            import traceback
            out.append({"id": job.get("id"), "issues": [{"kind": "harness", "why": "%s: %s" % (type(e).__name__, traceback.format_exc()[-600:])}],
                        "runs": 0, "in_ok": 0, "oob_fail": 0, "oob_known": {}, "bad_agree": 0, "compile": None, "samples": []})
    return out


def _struct_worker(shapes):
    """structural tie for a slice of tuple shapes, every index; returns the mismatches"""
    if "m" not in _W:
        _W["m"] = Model("c07")
    model = _W["m"]
    out = []
    for t in shapes:
        for i in range(len(t) - 1):
            r = call_real(C7.real_tuple_plan, t, i)
            real = r[1] if r[0] == "ok" else "<%s>" % r[1]
            mod = C7.model_plan(model, C7.src_tuple(t, i))
            if r[0] == "exc" and r[1] not in PYTEAL_ERRORS and r[1] not in ("ValueError", "TypeError"):
                out.append({"kind": "crash-tuple", "desc": (t, i), "real": real})
            if real != (mod if mod is not None else "<noplan>"):
                out.append({"kind": "tuple", "desc": (t, i), "real": real, "model": mod if mod is not None else "<noplan>"})
    return out


def run_jobs(jobs, nproc=NPROC):
    for n, j in enumerate(jobs):
        j["id"] = n
    if not jobs:
        return []
    chunks = [jobs[i::nproc * 4] for i in range(nproc * 4)]
    chunks = [c for c in chunks if c]
    ctxm = multiprocessing.get_context("fork")
    with ctxm.Pool(min(nproc, len(chunks))) as pool:
        res = pool.map(_worker, chunks)
    flat = [r for c in res for r in c]
    flat.sort(key=lambda r: r["id"])
    return flat


# ---------------------------------------------------------------------------------------------
# structural correspondence
# ---------------------------------------------------------------------------------------------
def real_sel_ops(pt, kind, ver, a, b):
    from pyteal.compiler.compiler import CompileOptions
    x = pt.Bytes("x")
    if kind == "substring":
        e = pt.Substring(x, pt.Int(a), pt.Int(b))
    elif kind == "extract":
        e = pt.Extract(x, pt.Int(a), pt.Int(b))
    else:
        e = pt.Suffix(x, pt.Int(a))
    start, _ = e.__teal__(CompileOptions(version=ver, mode=pt.Mode.Application))
    ops = []
    blk = start
    guard = 0
    while blk is not None and guard < 100:
        ops += [op.assemble() for op in blk.ops]
        blk = getattr(blk, "nextBlock", None)
        guard += 1
    return ops


def model_sel_ops(model, kind, ver, a, b):
    r = model.ask((S("sel"), S(kind), ver, a, b))
    if r[0] == S("error"):
        return None
    op = r[1]
    pre = ['byte "x"']
    if op.startswith("extract ") or op.startswith("substring "):
        return pre + [op]
    if op == "extract3":
        return pre + ["int %d" % a, "int %d" % ((b - a) if kind == "substring" else b), "extract3"]
    if op == "substring3":
        return pre + ["int %d" % a, "int %d" % b, "substring3"]
    if op == "diglen":
        return pre + ["int %d" % a, "dig 1", "len", "substring3"]
    raise ValueError(op)


def structural(ck, model, thorough, mism):
    import pyteal as pt
    rng = ck.rng
    hist = {}

    def cmp(kind, desc, real_fn, mod):
        r = call_real(real_fn)
        real = r[1] if r[0] == "ok" else "<%s>" % r[1]
        ck.count((kind, desc))
        hist[kind] = hist.get(kind, 0) + 1
        if r[0] == "exc" and r[1] not in PYTEAL_ERRORS and r[1] not in ("ValueError", "TypeError"):
            mism.append({"kind": "crash-" + kind, "desc": desc, "real": real})
        m = mod if mod is not None else "<noplan>"
        if real != m and not (mod is None and r[0] == "exc"):
            mism.append({"kind": kind, "desc": desc, "real": real, "model": m})
            return False
        return True

    # corpus first
    corpus = json.load(open(CORPUS)) if os.path.exists(CORPUS) else []
    for ent in corpus:
        t = R.tj(ent["t"])
        if ent.get("what") == "tuple":
            cmp("tuple", (t, ent["i"]), lambda: C7.real_tuple_plan(t, ent["i"]), C7.model_plan(model, C7.src_tuple(t, ent["i"])))
        elif ent.get("what") == "array":
            cmp("array", (t,), lambda: C7.real_array_plan(t), C7.model_plan(model, C7.src_array(t)))

    # tuples: exhaustive over an alphabet, every index
    alpha = ["bool", "byte", ("uint", 16), ("uint", 64), "string", ("darr", "bool"), ("sarr", "bool", 3), ("tuple",), "address", ("sbytes", 300)]
    maxw = 4
    if thorough:
        alpha = alpha + [("sarr", "string", 2)]
        maxw = 5
    t0 = time.time()
    bad_shapes = []
    shapes = list(C7.tuple_shapes(alpha, maxw))
    nshapes = len(shapes)
    nchunks = NPROC * 3
    ctxm = multiprocessing.get_context("fork")
    with ctxm.Pool(NPROC) as pool:
        parts = pool.map(_struct_worker, [shapes[c::nchunks] for c in range(nchunks)])
    for part in parts:
        for mm in part:
            mism.append(mm)
            if mm["kind"] == "tuple" and len(bad_shapes) < 40:
                bad_shapes.append(("tuple", mm["desc"][0], mm["desc"][1]))
    for t in shapes:
        for i in range(len(t) - 1):
            ck.count(("tuple", (t, i)))
    hist["tuple"] = sum(len(t) - 1 for t in shapes)
    ck.coverage["structural_tuples"] = {"alphabet": [AB.arc4_str(x) for x in alpha], "max_width": maxw, "shapes": nshapes,
                                        "every_index": True, "seconds": round(time.time() - t0, 1)}
    # bool runs around the byte boundaries, between dynamic members
    for nb in (1, 7, 8, 9, 15, 16, 17):
        for t in [("tuple", "string") + ("bool",) * nb + ("string",), ("tuple",) + ("bool",) * nb + ("string", "bool", "string"),
                  ("tuple", ("uint", 8)) + ("bool",) * nb + (("uint", 16), "string") + ("bool",) * nb + ("string",),
                  ("tuple",) + ("bool",) * nb]:
            for i in range(len(t) - 1):
                ok = cmp("tuple", (t, i), lambda: C7.real_tuple_plan(t, i), C7.model_plan(model, C7.src_tuple(t, i)))
                if not ok and len(bad_shapes) < 40:
                    bad_shapes.append(("tuple", t, i))
    # out-of-range tuple index: raises
    for t in [("tuple",), ("tuple", "bool"), ("tuple", "string", "byte")]:
        for i in (len(t) - 1, len(t) + 3):
            ck.count(("tuple-oob", t, i), nontrivial=False)
            spec = AB.to_pyteal(t)
            r = call_real(lambda: spec.new_instance()[i])
            m = C7.model_plan(model, C7.src_tuple(t, i))
            if not (r[0] == "exc" and r[1] == "TealInputError" and m is None):
                mism.append({"kind": "tuple-index-gate", "desc": (t, i), "real": repr(r)[:100], "model": m})
    # random deeper shapes
    nrand = 4000 if thorough else 1200
    for _ in range(nrand):
        w = rng.choice([1, 2, 3, 5, 6, 9, 12])
        t = C7.realise(("tuple",) + tuple(AB.rand_type(rng, rng.choice([0, 0, 1, 1, 2]), special=0.0) for _ in range(w)))
        i = rng.randrange(w)
        ok = cmp("tuple-random", (t, i), lambda: C7.real_tuple_plan(t, i), C7.model_plan(model, C7.src_tuple(t, i)))
        if not ok and len(bad_shapes) < 40:
            bad_shapes.append(("tuple", t, i))
    # named tuples: field accessors build the same tree as positions
    for _ in range(150 if thorough else 60):
        w = rng.choice([1, 2, 3, 4, 7])
        ts = tuple(rng.choice(alpha[:9] + [("uint", 8), ("uint", 32), "dynbytes"]) for _ in range(w))
        i = rng.randrange(w)

        def real_named():
            nt = AB.realistic_named(tuple("f%d" % k for k in range(w)), ts)
            inst = AB._named_classes[nt[1]]()
            out = AB.to_pyteal(ts[i]).new_instance()
            return C7.normalise(str(getattr(inst, "f%d" % i).store_into(out)), C7._slot_id(inst))
        cmp("named", (ts, i), real_named, C7.model_plan(model, C7.src_tuple(("tuple",) + ts, i)))

    # arrays
    elems_u = list(ARRAY_ELEMS)
    for e in elems_u:
        for at in [("sarr", e, n) for n in (0, 1, 3, 9)] + [("darr", e)]:
            mp = C7.model_plan(model, C7.src_array(at))
            ok = cmp("array", (at, "rt"), lambda: C7.real_array_plan(at), mp)
            if not ok and len(bad_shapes) < 40:
                bad_shapes.append(("array", at, None))
            for kx in (0, 2, 8, 9, 70000):
                # Int(k): same tree with the constant in place of the index; Python int: additionally the gate
                cmp("array-int", (at, kx), lambda: C7.real_array_plan(at, ("int", kx)), mp.replace("idx", "(Int %d)" % kx) if mp else None)
                gate = (at[0] == "sarr" and kx >= at[2])
                r = call_real(lambda: C7.real_array_plan(at, kx))
                ck.count(("array-py", at, kx))
                if gate:
                    if not (r[0] == "exc" and r[1] == "TealInputError"):
                        mism.append({"kind": "array-index-gate", "desc": (at, kx), "real": repr(r)[:120], "model": "TealInputError"})
                elif r[0] != "ok" or r[1] != mp.replace("idx", "(Int %d)" % kx):
                    mism.append({"kind": "array-py", "desc": (at, kx), "real": repr(r)[:200], "model": mp})
            r = call_real(lambda: AB.to_pyteal(at).new_instance()[-1])
            if not (r[0] == "exc" and r[1] == "TealInputError"):
                mism.append({"kind": "array-index-gate", "desc": (at, -1), "real": repr(r)[:120], "model": "TealInputError"})
            ml = model.ask((S("length"), AB.ty_sx(at)))
            cmp("length", (at,), lambda: C7.real_length(at), ml[1] if ml[0] == S("plan") else None)
    for t in ["address", "string", "dynbytes", ("sbytes", 0), ("sbytes", 5), ("sbytes", 32)]:
        cmp("array", (t, "rt"), lambda: C7.real_array_plan(t), C7.model_plan(model, C7.src_array(t)))
        cmp("get", (t,), lambda: C7.real_get(t), C7.model_plan(model, (S("get"), AB.ty_sx(t))))
        ml = model.ask((S("length"), AB.ty_sx(t)))
        cmp("length", (t,), lambda: C7.real_length(t), ml[1] if ml[0] == S("plan") else None)
    for t in list(ARRAY_ELEMS) + ["address", ("sbytes", 5)]:
        cmp("decode", (t,), lambda: C7.real_decode(t), C7.model_plan(model, (S("decode"), AB.ty_sx(t))))

    # selectors
    grid = [0, 1, 2, 254, 255, 256, 257, 510, 511, 512, 65535, 1 << 32, U64 - 1]
    nsel = 0
    for ver in range(2, 11):
        for a in grid:
            for b in grid:
                for kind in ("substring", "extract") + (("suffix",) if b == 0 else ()):
                    nsel += 1
                    r = call_real(real_sel_ops, pt, kind, ver, a, b)
                    m = model_sel_ops(model, kind, ver, a, b)
                    ck.count(("sel", kind, ver, a, b), nontrivial=False)
                    if m is None:
                        good = r[0] == "exc" and r[1] in ("TealCompileError", "TealInputError")
                    else:
                        good = r[0] == "ok" and r[1] == m
                    if not good:
                        mism.append({"kind": "selector", "desc": (kind, ver, a, b), "real": repr(r)[:200], "model": m})
    hist["selector"] = nsel
    ck.coverage["structural_cases"] = hist
    return bad_shapes


ARRAY_ELEMS = ["bool", "byte", ("uint", 8), ("uint", 16), ("uint", 32), ("uint", 64), "address", "string", "dynbytes",
               ("sbytes", 0), ("sbytes", 3), ("tuple",), ("tuple", "bool", "byte"), ("tuple", "bool", "bool", ("uint", 16)),
               ("tuple", "string", "bool"), ("tuple", ("uint", 8), "string", "bool", "string"),
               ("sarr", "bool", 3), ("sarr", "bool", 9), ("darr", "bool"), ("darr", ("uint", 16)), ("sarr", "string", 2),
               ("darr", "string"), ("sarr", ("uint", 8), 0), ("sarr", ("tuple", "bool", "byte"), 2)]


# ---------------------------------------------------------------------------------------------
# behaviour jobs
# ---------------------------------------------------------------------------------------------
def behaviour_jobs(ck, thorough, extra_shapes=()):
    rng = ck.rng
    jobs = []
    k = 0
    # corpus of earlier minimised failures first (every configuration)
    for ent in (json.load(open(CORPUS)) if os.path.exists(CORPUS) else []):
        t = R.tj(ent["t"])
        if ent.get("what") == "tuple":
            jobs += tuple_jobs(t, rng, k, True, nvals=2, kinds=("tuple",), idxs=[ent["i"]])
        elif ent.get("what") == "array":
            jobs += array_jobs(t, rng, k, True)
        k += 1
    ck.coverage["corpus_jobs"] = len(jobs)
    # tuples: exhaustive small alphabet
    alpha = ["bool", "byte", ("uint", 16), ("uint", 64), "string", ("darr", "bool"), ("sarr", "bool", 3), ("tuple",)]
    maxw = 4
    if thorough:
        alpha = alpha + ["address"]
    shapes = list(C7.tuple_shapes(alpha, maxw))
    if not thorough:
        # quick: every shape up to width 3, a seeded sample of width 4
        w4 = [t for t in shapes if len(t) == 5]
        rng.shuffle(w4)
        shapes = [t for t in shapes if len(t) < 5] + w4[:150]
    ck.coverage["behaviour_tuple_shapes"] = {"alphabet": [AB.arc4_str(x) for x in alpha], "exhaustive_width": 4 if thorough else 3,
                                             "sampled_width4": 0 if thorough else 150, "shapes": len(shapes)}
    for t in shapes:
        if len(t) == 1:
            continue
        js = tuple_jobs(t, rng, k, thorough and len(t) <= 4, nvals=2, kinds=("tuple", "tuple", "named"))
        jobs += js
        k += 1
    # bool runs across byte boundaries between dynamic members, wide tuples
    for nb in (1, 7, 8, 9, 16, 17):
        for t in [("tuple", "string") + ("bool",) * nb + ("string",), ("tuple", ("uint", 8)) + ("bool",) * nb + (("uint", 16), "string") + ("bool",) * 2 + ("string",),
                  ("tuple",) + ("bool",) * nb + (("darr", ("uint", 16)), "bool", "address")]:
            jobs += tuple_jobs(t, rng, k, thorough, nvals=2, kinds=("tuple", "named"))
            k += 1
    # members of every element kind
    for e in ARRAY_ELEMS + [("uint", 8), ("uint", 32), ("sbytes", 32)]:
        for t in [("tuple", e), ("tuple", "bool", e, "string"), ("tuple", "string", e), ("tuple", ("uint", 16), e, "bool", "bool")]:
            jobs += tuple_jobs(t, rng, k, thorough, nvals=2, kinds=("tuple", "named"))
            k += 1
    # random deeper tuples
    for _ in range(600 if thorough else 60):
        w = rng.choice([2, 3, 5, 6, 9])
        t = C7.realise(("tuple",) + tuple(AB.rand_type(rng, rng.choice([0, 1, 1, 2]), special=0.0, named=0.15) for _ in range(w)))
        try:
            jobs += tuple_jobs(t, rng, k, False, nvals=1, kinds=("tuple",), idxs=[rng.randrange(w)])
        except ValueError:
            pass
        k += 1
    # arrays
    for e in ARRAY_ELEMS:
        for at in [("sarr", e, n) for n in ((0, 1, 3, 8, 9) if not thorough else (0, 1, 2, 3, 7, 8, 9, 16, 17))] + [("darr", e)]:
            jobs += array_jobs(at, rng, k, thorough)
            k += 1
    for at in ["address", "string", "dynbytes", ("sbytes", 0), ("sbytes", 5), ("sbytes", 32)]:
        jobs += array_jobs(at, rng, k, thorough)
        jobs += get_jobs(at, rng, k, thorough)
        k += 1
    for t in ["bool", "byte", ("uint", 8), ("uint", 16), ("uint", 32), ("uint", 64)]:
        jobs += get_jobs(t, rng, k, thorough)
        k += 1
    # arrays inside tuples (the array member is first extracted, then indexed)
    for at in [("sarr", ("uint", 8), 2), ("sarr", "bool", 3), ("darr", "bool"), ("darr", ("uint", 16)), ("sarr", "string", 2), ("darr", "string"),
               ("sarr", ("tuple", "bool", "byte"), 2), "address", "string", ("sarr", ("tuple",), 2)]:
        for t in [("tuple", ("uint", 8), at, ("uint", 8)), ("tuple", at, "string"), ("tuple", "bool", at, "bool", ("uint", 64))]:
            jobs += nested_jobs(t, AB.children(t).index(at), rng, k, thorough)
            k += 1
    # directed: shapes on which the structural tie broke
    for (what, t, i) in extra_shapes:
        try:
            if what == "tuple":
                jobs += tuple_jobs(t, rng, k, True, nvals=4, kinds=("tuple",), idxs=[i])
            else:
                jobs += array_jobs(t, rng, k, True)
        except ValueError:
            pass
        k += 1
    return jobs


def variant_jobs(ck, thorough):
    """The storage / control-flow dimensions of the statement, on a fixed set of access programs:
       (a) the routine also owns user ScratchVars with small requested slot ids ({1},{2},{3},{0,2},{1,3},{1,2,3},{0,1}) that it
           writes before the decode and again between the extraction and the use (scratch back-end: main routine and a
           subroutine compiled without frame pointers) — every ABI value must keep its own cell;
       (b) the same ABI value decoded and used in an earlier basic block and again inside an If arm, accessed in a loop body,
           used after a two-armed branch — compiled with the slot optimiser ON and OFF."""
    rng = ck.rng
    base = []
    k = 0
    for t in [("tuple", ("uint", 64), ("uint", 64)), ("tuple", "bool", "string", ("uint", 16), "bool"),
              ("tuple", "string", ("darr", ("uint", 16)), "byte"), ("tuple", ("sarr", "bool", 3), "address", ("uint", 32))]:
        base += tuple_jobs(t, rng, k, False, nvals=2, kinds=("tuple", "named"))
        k += 1
    for at in [("darr", ("uint", 16)), ("sarr", "bool", 9), ("darr", "string"), ("sarr", ("tuple", "bool", "byte"), 2), "string", ("darr", "bool")]:
        base += [j for j in array_jobs(at, rng, k, False) if j["index"] is None]
        k += 1
    t = ("tuple", ("uint", 8), ("darr", ("uint", 16)), "string")
    base += nested_jobs(t, 1, rng, k, False)
    for t in ["string", ("uint", 64), "bool", "address"]:
        base += get_jobs(t, rng, k, False)
    slotsets = [[1], [2], [3], [0, 2], [1, 3], [1, 2, 3], [0, 1]]
    flows = ["reuse-if", "loop", "after-branch"]
    out = []
    n = 0
    for j in base:
        runs = [r_ for r_ in j["runs"] if r_["tag"] == "in"][:6] + [r_ for r_ in j["runs"] if r_["tag"] == "oob"][:4] + [r_ for r_ in j["runs"] if r_["tag"] == "bad"][:1]
        j = dict(j, runs=runs)
        sets = slotsets if thorough else [slotsets[(n + d) % len(slotsets)] for d in (0, 3, 5)]
        for ss in sets:
            for be in ("scratch", "subscratch"):
                out.append(dict(j, user_slots=ss, backend=be, ver=5 + n % 6, opt=[None, False][(n // 2) % 2]))
                n += 1
        for flow in flows:
            for opt in (True, False):
                bes = ("scratch", "subscratch", "frame") if thorough else (("scratch", "subscratch", "frame")[n % 3], "scratch")
                for be in dict.fromkeys(bes):
                    ver = (8 + n % 3) if be == "frame" else (5 + n % 6)
                    out.append(dict(j, flow=flow, opt=opt, backend=be, ver=ver))
                    n += 1
    ck.coverage["variant_jobs"] = {"base_programs": len(base), "user_slot_sets": slotsets, "flows": flows, "jobs": len(out)}
    return out


def special_jobs(ck, thorough):
    """(a) 2-3 NamedTuple classes per program that share field names at DIFFERENT positions and with different types,
           instantiated in varying orders (with throw-away instances), every field of every class read by name;
       (b) one ComputedValue handle (e = t[i] / e = arr[idx]) used twice: container re-decoded from another argument in
           between, on both arms of an If, before and inside a loop; use/use, store_into/use, use/store_into."""
    rng = ck.rng
    jobs = []
    pool_names = ["price", "quantity", "owner", "flag", "memo"]
    pool_types = [("uint", 64), ("uint", 16), "bool", "string", "address", "byte", ("uint", 64)]
    cfgs = [(5, "scratch"), (8, "frame"), (7, "subscratch"), (10, "frame"), (9, "scratch"), (6, "scratch"), (8, "scratch"), (10, "scratch"), (9, "frame")]
    nprog = 120 if thorough else 40
    for k in range(nprog):
        ncls = 2 if k % 3 else 3
        w = rng.choice([2, 2, 3, 4])
        names = rng.sample(pool_names, w)
        classes = []
        for c in range(ncls):
            nm = list(names)
            if c == 0:
                pass
            elif w == 2 or c == 1:
                nm = nm[::-1]
            else:
                nm = nm[1:] + nm[:1]
            if k % 4 == 0 and c == 1:
                ts = [("uint", 64)] * w           # same type everywhere: a wrong position cannot fail, only return the wrong field
            else:
                ts = [rng.choice(pool_types) for _ in nm]
            if k % 4 == 0 and c == 0:
                ts = [("uint", 64)] * w
            classes.append({"names": nm, "ts": ts})
        order = list(range(ncls))
        rng.shuffle(order)
        if k % 2:
            order = order + [rng.randrange(ncls)]
        access = [(c, n, ["use", "store"][(k + c + j) % 2]) for c in range(ncls) for j, n in enumerate(classes[c]["names"])]
        rng.shuffle(access)
        runs = []
        for rep in range(2):
            vals = [[AB.gen_value(C7.layout(t), rng, text=True, maxlen=3) for t in cd["ts"]] for cd in classes]
            args = [sdk_enc(("tuple",) + tuple(cd["ts"]), v) for cd, v in zip(classes, vals)]
            expects = [sdk_enc(classes[c]["ts"][classes[c]["names"].index(n)], vals[c][classes[c]["names"].index(n)]).hex() for (c, n, _) in access]
            runs.append({"args": [a.hex() for a in args], "tag": "in", "expects": expects})
        ver, be = cfgs[k % len(cfgs)]
        jobs.append({"kind": "multinamed", "classes": classes, "order": order, "access": [list(a) for a in access], "ver": ver, "backend": be, "runs": runs})
    # handles
    hk = 0
    for (base, t, i) in [("tuple", ("tuple", ("uint", 64), ("uint", 64)), 1), ("tuple", ("tuple", "bool", "string", ("uint", 16)), 1),
                         ("tuple", ("tuple", "string", "bool", "bool"), 2), ("array", ("darr", ("uint", 32)), None), ("array", ("sarr", ("uint", 16), 3), None),
                         ("array", ("darr", "string"), None), ("array", ("darr", "bool"), None)]:
        for hv in ("redecode", "branches", "loop"):
            for pattern in (["use", "use"], ["store", "use"], ["use", "store"]):
                for be in (("scratch", "frame", "subscratch") if thorough else (("scratch", "frame") if hv == "branches" else (("scratch", "frame", "subscratch")[hk % 3],))):
                    ver = (8 + hk % 3) if be == "frame" else (5 + hk % 6)
                    hk += 1
                    runs = []
                    for rep in range(2):
                        if base == "tuple":
                            va, vb = gen_val(t, rng), gen_val(t, rng)
                            et = AB.children(t)[i]
                            ca, cb = sdk_enc(et, va[i]).hex(), sdk_enc(et, vb[i]).hex()
                            idxs = [(0, True)]
                        else:
                            e_, sl = C7.array_info(t)
                            n = sl if sl is not None else rng.choice([1, 2, 3])
                            va, vb = gen_array_val(t, n, rng), gen_array_val(t, n, rng)
                            idxs = [(x, True) for x in range(n)]
                            if C7.elem_kind(e_) == "static":
                                idxs += [(n, False), (n + 1, False), (65536, False)]
                        ea, eb = sdk_enc(t, va), sdk_enc(t, vb)
                        for (ix, inr) in idxs:
                            if base == "array" and inr:
                                e_ = C7.array_info(t)[0]
                                ca, cb = sdk_enc(e_, elems(va)[ix]).hex(), sdk_enc(e_, elems(vb)[ix]).hex()
                            for sel in ((b"x", b"y") if hv == "branches" else (b"x",)):
                                exp = {"redecode": [ca, cb], "branches": [ca], "loop": [ca, cb, cb]}[hv] if inr else None
                                runs.append({"args": [ea.hex(), ix.to_bytes(8, "big").hex(), eb.hex(), sel.hex()], "tag": "in" if inr else "oob", "expects": exp, "idx": ix})
                    jobs.append({"kind": "handle", "base": base, "t": t, "i": i, "handle": hv, "pattern": pattern, "ver": ver, "backend": be, "runs": runs})
    nbefore = len(jobs)
    # signatures mixing parameter kinds: the decoded container is an ABI argument next to Expr / ScratchVar parameters
    sigs = [["abi", "expr"], ["expr", "abi"], ["abi", "expr", "abi"], ["abi", "sv"], ["abi", "abi", "expr"], ["sv", "abi", "expr"], ["abi"]]
    mk = 0
    for (base, t, i) in [("array", ("darr", ("uint", 64)), None), ("array", ("sarr", ("uint", 16), 3), None), ("array", ("darr", "string"), None),
                         ("array", ("darr", "bool"), None), ("tuple", ("tuple", ("uint", 64), "string", "bool"), 1), ("tuple", ("tuple", "bool", ("uint", 32)), 1)]:
        for sig in sigs:
            for flavor in ("sub", "abiret"):
                for be in (("frame", "subscratch") if (thorough or mk % 3 == 0) else ("frame",)):
                    ver = (8 + mk % 3) if be == "frame" else (5 + mk % 6)
                    mk += 1
                    nabi = sig.count("abi")
                    runs = []
                    for rep in range(2):
                        if base == "tuple":
                            va, vb = gen_val(t, rng), gen_val(t, rng)
                            et = AB.children(t)[i]
                            cs = [(0, sdk_enc(et, va[i]).hex(), sdk_enc(et, vb[i]).hex())]
                        else:
                            e_, sl = C7.array_info(t)
                            n = sl if sl is not None else rng.choice([2, 3])
                            va, vb = gen_array_val(t, n, rng), gen_array_val(t, n, rng)
                            cs = [(x, sdk_enc(e_, elems(va)[x]).hex(), sdk_enc(e_, elems(vb)[x]).hex()) for x in range(n)]
                        ea, eb = sdk_enc(t, va), sdk_enc(t, vb)
                        for (ix, ca, cb) in cs:
                            exp = [ca] if nabi == 1 else ([ca, cb] if flavor == "sub" else [cb, ca])
                            runs.append({"args": [ea.hex(), ix.to_bytes(8, "big").hex(), eb.hex()], "tag": "in", "expects": exp, "idx": ix})
                    jobs.append({"kind": "mixedsig", "base": base, "t": t, "i": i, "sig": sig, "flavor": flavor, "ver": ver, "backend": be, "runs": runs})
    ck.coverage["special_jobs"] = {"multinamed_programs": nprog, "handle_programs": nbefore - nprog, "mixed_signature_programs": len(jobs) - nbefore}
    return jobs


# ---------------------------------------------------------------------------------------------
# shrinking a failing run
# ---------------------------------------------------------------------------------------------
def still_fails(pt, model, job, kinds):
    r = R.execute_job(pt, model, job)
    return [x for x in r["issues"] if x["kind"] in kinds]


def shrink(pt, model, job, issue, rng):
    """smaller job with one run that still shows an issue of the same kind (tuple: drop members; arrays: shorter)"""
    kinds = (issue["kind"],)
    job = dict(job, runs=[issue["run"]]) if "run" in issue else job
    best = job
    try:
        if job["kind"] in ("tuple", "named") and "val" in issue.get("run", {}):
            pass
        if job["kind"] in ("tuple", "named") and issue.get("run", {}).get("tag") == "in":
            t, i = job["t"], job["i"]
            changed = True
            while changed:
                changed = False
                ts = list(AB.children(t))
                for j in range(len(ts)):
                    if j == i:
                        continue
                    ts2 = ts[:j] + ts[j + 1:]
                    t2 = ("tuple",) + tuple(ts2)
                    i2 = i - 1 if j < i else i
                    found = None
                    for attempt in range(4):      # the failure may depend on the value: try a few
                        v = gen_val(t2, rng)
                        enc = sdk_enc(t2, v)
                        cand = dict(best, kind="tuple", logmode="encode", t=t2, i=i2,
                                    runs=[{"enc": enc.hex(), "idx": None, "tag": "in", "expect": sdk_enc(ts2[i2], v[i2]).hex(), "n": 0}])
                        bad = still_fails(pt, model, cand, kinds)
                        if bad:
                            found = dict(cand, runs=[bad[0]["run"]])
                            break
                    if found is not None:
                        best, t, i, changed = found, t2, i2, True
                        break
        elif job["kind"] == "array" and "run" in issue:
            run = issue["run"]
            n, idx = run["n"], R.run_index_value(job, run)
            t = job["t"]
            if C7.array_info(t)[1] is None:
                for n2 in range(0, n):
                    idx2 = idx if run["tag"] != "in" else min(idx, n2 - 1)
                    if run["tag"] == "in" and n2 == 0:
                        continue
                    v = gen_array_val(t, n2, rng)
                    enc = sdk_enc(t, v)
                    r2 = {"enc": enc.hex(), "idx": idx2 if job.get("index") is None else None, "tag": run["tag"], "n": n2,
                          "expect": sdk_enc(C7.array_info(t)[0], elems(v)[idx2]).hex() if run["tag"] == "in" else None}
                    cand = dict(best, logmode="encode", runs=[r2], index=(None if job.get("index") is None else [job["index"][0], idx2]))
                    if still_fails(pt, model, cand, kinds):
                        best = cand
                        break
    except Exception:  # noqa  (shrinking is best effort)
        pass
    return best


# ---------------------------------------------------------------------------------------------
# replay
# ---------------------------------------------------------------------------------------------
def replay(path):
    ent = json.load(open(path))
    if "job" not in ent:
        print("replay file has no single failing program (kind=%s): %s" % (ent.get("kind"), ent.get("what", "")[:300]))
        return 2
    import pyteal as pt
    model = Model("c07")
    job = dict(ent["job"], t=R.tj(ent["job"]["t"])) if "t" in ent["job"] else ent["job"]
    r = R.execute_job(pt, model, job)
    bad = [x for x in r["issues"] if x["kind"] in ("semantic", "oob", "crash", "compile")]
    print("job %s %s i=%s index=%s v%d %s: compile=%s runs=%d in_ok=%d oob_fail=%d oob_known=%s issues=%d" % (
        job["kind"], AB.arc4_str(job["t"]) if "t" in job else "-", job.get("i"), job.get("index"), job["ver"], job["backend"], r["compile"], r["runs"], r["in_ok"],
        r["oob_fail"], r["oob_known"], len(r["issues"])))
    for x in r["issues"][:5]:
        print("  %s: %s" % (x["kind"], x["why"]))
    if bad:
        print("VIOLATION property=C07 replay=%s" % path)
        return 1
    return 0


def job_json(job):
    return json.loads(json.dumps(job, default=list))


# ---------------------------------------------------------------------------------------------
def main(argv):
    args = parse_args(argv)
    if args.replay:
        return replay(args.replay)
    ck = Check("C07", args.tier)
    thorough = args.tier == "thorough"
    import pyteal as pt
    t_start = time.time()

    # ---------------- 1. proofs ----------------
    ck.run_proofs("Props/C07.v", PROOF_FILES, extra_targets=["Extract/Main_c07.vo"])
    model = Model("c07")
    t_proof = time.time()

    # ---------------- 2. structural correspondence ----------------
    mism = []
    bad_shapes = structural(ck, model, thorough, mism)
    t_struct = time.time()

    # ---------------- 3. behaviour on the AVM (oracle + executed correspondence) ----------------
    jobs = behaviour_jobs(ck, thorough, extra_shapes=bad_shapes if (mism or not ck.proof_ok) else ())
    jobs += variant_jobs(ck, thorough)
    jobs += special_jobs(ck, thorough)
    t_gen = time.time()
    results = run_jobs(jobs)
    t_run = time.time()
    agg = {"jobs": len(jobs), "runs": 0, "in_range_ok": 0, "oob_failed": 0, "damaged_agree": 0, "compile_errors_expected": 0}
    known_counts = {}
    sem, corr, other = [], [], []
    hist = {}
    for job, r in zip(jobs, results):
        agg["runs"] += r["runs"]
        agg["in_range_ok"] += r["in_ok"]
        agg["oob_failed"] += r["oob_fail"]
        agg["damaged_agree"] += r["bad_agree"]
        key = "%s/v%d/%s%s%s" % (job["kind"], job["ver"], job["backend"], "/slots" if job.get("user_slots") else "",
                                 ("/%s/opt=%s" % (job["flow"], job.get("opt"))) if job.get("flow") else "")
        hist[key] = hist.get(key, 0) + 1
        if r["compile"] not in (None, "ok") and not r["issues"]:
            agg["compile_errors_expected"] += 1
        ck.evaluations += max(1, r["runs"])
        ck.distinct.add("job:%d" % job["id"]) if r["runs"] else None
        for c, n in r["oob_known"].items():
            known_counts[c] = known_counts.get(c, 0) + n
        for smp in r["samples"]:
            if len([s_ for s_ in ck.samples if s_.get("class") == smp["class"]]) < 1:
                ck.sample(dict(smp, kind="known-finding-class"), limit=8)
        for x in r["issues"]:
            rec = dict(x, job=job_json(dict(job, runs=[x["run"]] if "run" in x else job["runs"][:1])))
            if x["kind"] in ("semantic", "oob", "crash"):
                sem.append(rec)
            elif x["kind"] in ("corr", "compile"):
                corr.append(rec)
            else:
                other.append(rec)
    ck.coverage["behaviour"] = agg
    ck.coverage["input_distribution"] = hist
    for r in results:
        if r["runs"] and len(ck.samples) < 4 and r["in_ok"] and jobs[r["id"]]["kind"] not in R.SPECIAL_KINDS:
            j = jobs[r["id"]]
            ck.sample({"kind": "in-range", "type": AB.arc4_str(j["t"]), "access": j["kind"], "position": j.get("i"), "version": j["ver"], "backend": j["backend"],
                       "enc": j["runs"][0]["enc"], "expected_log": j["runs"][0].get("expect")})
    for o in other[:5]:
        ck.model_problem("harness/AVM problem in a behaviour job: %s" % o["why"][:300])

    # ---------------- 4. known findings ----------------
    for f in ck.findings:
        w = f.get("witness", {})
        try:
            job = dict(w["job"], t=R.tj(w["job"]["t"]))
            r = R.execute_job(pt, model, job)
            if r["oob_known"].get(f["class"]) and not r["issues"]:
                ck.known(f["id"], f["what"])
            elif r["issues"]:
                ck.notes.append("known finding %s: witness now behaves differently: %s" % (f["id"], r["issues"][0]["why"][:200]))
        except Exception as e:  # noqa
            ck.notes.append("known finding %s could not be replayed: %s" % (f.get("id"), e))
    by_class = {f["class"]: f for f in ck.findings}
    for c, n in known_counts.items():
        if c in by_class:
            ck.known(by_class[c]["id"], by_class[c]["what"])
        else:
            # a class predicate of the check without a recorded finding: report it as a violation
            sem.append({"kind": "oob", "why": "out-of-range accesses of class %s return data (%d runs) and no known finding covers the class" % (c, n),
                        "job": None})
    ck.coverage["known_finding_runs"] = known_counts

    # ---------------- 5. verdict ----------------
    def _size(f):
        j = f.get("job") or {}
        if j.get("kind") == "multinamed":
            return sum(len(cd["names"]) for cd in j["classes"]) + len(j["order"])
        return 0
    sem.sort(key=_size)          # stable: among multi-class programs the smallest failing one is reported
    reported = 0
    seen_why = set()
    for f in sem:
        if reported >= 6:
            break
        fj = f.get("job") or {}
        sig = (f["kind"], fj.get("kind"), repr(fj.get("t")), fj.get("i"), (fj.get("runs") or [{}])[0].get("tag"), bool(fj.get("user_slots")), fj.get("flow"), fj.get("handle"), repr(fj.get("sig"))) if fj else (f["kind"], f["why"][:60])
        if sig in seen_why:
            continue
        seen_why.add(sig)
        small = f.get("job")
        if small is not None and small["kind"] in R.SPECIAL_KINDS:
            desc = ("NamedTuple classes %s instantiated in order %s, fields read by name %s" % (
                        ["(" + ", ".join("%s: %s" % (n, AB.arc4_str(R.tj(t_))) for n, t_ in zip(cd["names"], cd["ts"])) + ")" for cd in small["classes"]],
                        small["order"], [a[:2] for a in small["access"]])) if small["kind"] == "multinamed" else (
                    ("%s of %s passed as ABI argument through a %s with parameter kinds %s" % ("position %s" % small["i"] if small["base"] == "tuple" else "run-time-indexed element",
                        AB.arc4_str(R.tj(small["t"])), "ABIReturnSubroutine" if small["flavor"] == "abiret" else "Subroutine", small["sig"])) if small["kind"] == "mixedsig" else
                    "one element handle of %s (%s) used twice, shape %s, pattern %s" % (AB.arc4_str(R.tj(small["t"])), "position %s" % small["i"] if small["base"] == "tuple" else "run-time index", small["handle"], small["pattern"]))
            ck.violation("ABI access program: %s, v%d, back-end %s: %s" % (desc, small["ver"], small["backend"], f["why"]),
                         {"kind": f["kind"], "job": small, "why": f["why"], "real": f.get("real"), "expect": f.get("expect"), "teal": f.get("teal")})
            reported += 1
            continue
        if small is not None and f["kind"] in ("semantic", "oob"):
            j0 = dict(small, t=R.tj(small["t"]))
            small = job_json(shrink(pt, model, j0, dict(f, run=small["runs"][0]), ck.rng))
        what = "%s" % f["why"]
        if small is not None:
            what = "ABI %s access on %s (position %s, index %s, v%d, back-end %s): %s" % (small["kind"], AB.arc4_str(R.tj(small["t"])), small.get("i"),
                                                                                         small.get("index") or small["runs"][0].get("idx"), small["ver"],
                                                                                         small["backend"] + ("".join([", user ScratchVars with requested ids %s" % small["user_slots"] if small.get("user_slots") else "",
                                                                                                                      ", flow %s" % small["flow"] if small.get("flow") else "",
                                                                                                                      ", scratch_slots=%s" % small["opt"] if small.get("opt") is not None else ""])), f["why"])
        ck.violation(what, {"kind": f["kind"], "job": small, "why": f["why"], "real": f.get("real"), "model": f.get("model"), "expect": f.get("expect"), "teal": f.get("teal")})
        reported += 1
    if (mism or corr) and not sem:
        first = (mism + corr)[0]
        ck.violation("correspondence broken: the real element-access code differs from coq/ABI/Index.v on %d structural and %d executed case(s) "
                     "(first: %s %s); theorems C07_* no longer transfer; the AVM oracle over %d runs found no wrong component and no unexplained out-of-range read"
                     % (len(mism), len(corr), first.get("kind"), str(first.get("desc", first.get("why")))[:160], agg["runs"]),
                     {"kind": "correspondence", "broken": "plan text / selector ops / executed behaviour vs ABI/Index.v",
                      "structural": json.loads(json.dumps(mism[:5], default=repr)), "executed": [dict(c, teal=None) for c in corr[:3]]},
                     no_failing_input=True)
    if not ck.proof_ok and not sem:
        ck.violation("proof obligation broken: Props/C07.v or Proofs/ABIIndex*.v no longer check",
                     {"kind": "proof", "broken": "C07 theorems", "log": ck.proof_log[-2500:]}, no_failing_input=True)
    ck.coverage["disagreements_checked"] = len(mism) + len(corr) + len(sem)
    ck.coverage["phase_s"] = {"proofs+build": round(t_proof - t_start, 1), "structural": round(t_struct - t_proof, 1),
                              "job_generation": round(t_gen - t_struct, 1), "avm": round(t_run - t_gen, 1), "verdict": round(time.time() - t_run, 1)}
    model.close()
    return ck.finish(
        level="proof",
        rule="structure: str(expr) of the real tuple[i].store_into / array[idx].store_into / length / get / decode, normalised (enc, idx, tmp), equals the model plan text for "
             "EVERY tuple over a 10-type alphabet up to width %d x every index, bool runs of 1..17 between dynamic members, random deeper tuples, named-tuple field accessors, "
             "arrays of 24 element types x static lengths {0,1,3,9} / dynamic x run-time / Int(k) / Python-int indices (with the __getitem__ gates); selector op lists on a 13x13 boundary grid x versions 2..10. "
             "behaviour: programs compiled by the real compileTeal (decode Txn.application_args[0], access, log, approve), scratch / frame-variable / ABI-argument back-ends, versions 5..10, "
             "run on the extracted AVM: in-range => log == algosdk encoding of the component; out-of-range indices (n, n+1, 8*ceil(n/8)-1, 8*ceil(n/8), .., 2^16, 2^32, 2^63, 2^64-1) => must fail unless "
             "the faithful model reproduces the output AND the case lies in a known-finding class; every run (incl. damaged encodings) is compared with exec_plan of the model. "
             "distinct = distinct (shape, position) structural cases + distinct compiled programs; non-trivial = not a selector grid point / gate probe" % (5 if thorough else 4),
        trusted_base=[
            "ARC-4 spec coq/ABI/Spec.v (validated against algosdk.abi by C19/C06 on every run; here every expected component encoding comes from algosdk, not from the spec)",
            "AVM opcode semantics coq/AVM/Ops.v, Machine.v (hand-written; extract/extract3/substring/substring3/extract_uint16/32/64/getbit/getbyte/len/btoi/+/*/==/int, frame_dig/frame_bury/proto/callsub)",
            "Theorems are about coq/ABI/Index.v (hand model of _index_tuple, ArrayElement.store_into, length, get, decode, substring_for_decoding, the three op selectors), tied to the code by exact "
            "comparison of the built expression trees, of the selector op lists and of executed behaviour on every run; byte_length_static is modelled by Spec.static_len (tied by the constants in the plans)",
            "index expressions are modelled by their value (IIdx): side effects / repeated evaluation of a user-supplied index expression are outside the model",
            "uint widths outside {8,16,32,64} cannot be built in PyTeal and are outside the theorems (pyteal_elem)",
            "algosdk.abi 2.x as reference codec; harness generators; Extraction: ExtrOcamlBasic + ExtrOcamlNativeString, ocaml/driver.ml",
        ])


if __name__ == "__main__":
    sys.exit(run_main(main))
