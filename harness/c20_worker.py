"""C20 worker: compiles ONE family of potentially deep / long / slow programs with the real compiler in its
own interpreter.  Jobs (JSON lines on stdin) -> results (JSON lines on stdout).

For every job the program is compiled
  (1) at the interpreter's DEFAULT recursion limit (restored after every phase 2), under an alarm;
  (2) only if (1) ended in RecursionError: once more inside a thread with a 64 MB stack and a recursion limit of
      200 000, with a sys.monitoring hook that records the peak Python call depth.  Phase 2 answers the question the
      class predicate of the finding "long-program-recursion" needs: does the program compile once the stack is
      deep enough, and how deep did the walk have to go?  (An unbounded recursion, e.g. the optimiser's block
      comparison on a cycle, still fails in phase 2.)
The worker never lets an exception of the implementation escape; a hard crash of the interpreter is seen by the
parent as a missing answer."""
import json
import os
import signal
import sys
import threading
import time
import traceback

REPO = os.environ.get("PYTEAL_REPO", "/repo")
if REPO not in sys.path:
    sys.path.insert(0, REPO)
sys.path.insert(0, os.path.dirname(os.path.abspath(__file__)))

PYTEAL_ERRORS = ("TealInputError", "TealCompileError", "TealTypeError", "TealInternalError", "TealPragmaError")


class Timeout(Exception):
    pass


def _alarm(signum, frame):
    raise Timeout()


def is_pyteal_error(pt, e):
    return isinstance(e, tuple(getattr(pt, n) for n in PYTEAL_ERRORS))


def tb_summary(e, n=6):
    tb = traceback.extract_tb(e.__traceback__)
    inner = [(os.path.relpath(f.filename, REPO) if f.filename.startswith(REPO) else os.path.basename(f.filename), f.name) for f in tb[-n:]]
    names = {}
    for f in tb:
        if f.filename.startswith(REPO):
            names[f.name] = names.get(f.name, 0) + 1
    top = sorted(names.items(), key=lambda kv: -kv[1])[:4]
    return {"inner": inner, "top": top, "len": len(tb)}


def stack_depth():
    d, f = 0, sys._getframe()
    while f is not None:
        d += 1
        f = f.f_back
    return d


# ---------------------------------------------------------------------------------------------
# program families (built through the public constructors only)
# ---------------------------------------------------------------------------------------------
def family(pt, name, n):
    Int, Seq, Pop, Approve, Txn, If, While = pt.Int, pt.Seq, pt.Pop, pt.Approve, pt.Txn, pt.If, pt.While
    u64 = pt.TealType.uint64
    if name == "long_pop":
        return Seq(*[Pop(Int(i)) for i in range(n)], Approve())
    if name == "long_store":
        x = pt.ScratchVar(u64)
        return Seq(*[x.store(Int(i)) for i in range(n)], Approve())
    if name == "long_log":
        return Seq(*[pt.Log(pt.Bytes("x")) for i in range(n)], Approve())
    if name == "long_assert":
        return Seq(*[pt.Assert(Txn.fee() >= Int(i)) for i in range(n)], Approve())
    if name == "nary_concat":
        return Seq(Pop(pt.Concat(*[pt.Bytes("a") for _ in range(max(n, 1))])), Approve())
    if name == "nary_add":
        return pt.Return(pt.Add(*[Int(1) for _ in range(max(n, 1))]))
    if name == "nest_add":
        e = Int(1)
        for i in range(n):
            e = pt.Add(Int(i), e)
        return pt.Return(e)
    if name == "nest_minus":
        e = Int(1)
        for i in range(n):
            e = pt.Minus(e, Int(i))
        return pt.Return(e)
    if name == "nest_seq":
        e = Approve()
        for i in range(n):
            e = Seq(Pop(Int(i)), e)
        return e
    if name == "nest_not":
        e = Int(1)
        for i in range(n):
            e = pt.Not(e)
        return pt.Return(e)
    if name == "seq_if":
        return Seq(*[If(Txn.fee() < Int(i)).Then(Pop(Int(i))) for i in range(n)], Approve())
    if name == "seq_ifelse":
        return Seq(*[If(Txn.fee() < Int(i)).Then(Pop(Int(i))).Else(Pop(Int(i + 1))) for i in range(n)], Approve())
    if name == "diamonds":          # a store/load pair, then n two-armed Ifs: the optimiser compares blocks structurally
        x = pt.ScratchVar(u64)
        return Seq(x.store(Txn.fee()), Pop(x.load()),
                   *[If(Txn.fee() < Int(i)).Then(Pop(Int(i))).Else(Pop(Int(i + 1))) for i in range(n)], Approve())
    if name == "half_diamonds":
        x = pt.ScratchVar(u64)
        return Seq(x.store(Txn.fee()), Pop(x.load()),
                   *[If(Txn.fee() < Int(i)).Then(Pop(Int(i))) for i in range(n)], Approve())
    if name == "nested_if":         # one-armed Ifs nested n deep
        e = Pop(Int(1))
        for i in range(n):
            e = If(Txn.fee() < Int(i)).Then(e)
        return Seq(e, Approve())
    if name == "nested_ifelse":
        e = Pop(Int(1))
        for i in range(n):
            e = If(Txn.fee() < Int(i)).Then(e).Else(Pop(Int(i)))
        return Seq(e, Approve())
    if name == "nested_while":
        e = Pop(Int(1))
        for i in range(n):
            e = While(Txn.fee() < Int(i)).Do(e)
        return Seq(e, Approve())
    if name == "seq_while":
        return Seq(*[While(Txn.fee() < Int(i)).Do(Pop(Int(i))) for i in range(n)], Approve())
    if name == "cond_arms":
        return pt.Cond(*[[Txn.fee() == Int(i), Approve()] for i in range(max(n, 1))])
    if name == "many_vars":
        vs = [pt.ScratchVar(u64) for _ in range(n)]
        return Seq(*[v.store(Int(i)) for i, v in enumerate(vs)], *[Pop(v.load()) for v in vs], Approve())
    if name == "many_stores":       # n variables, each stored once: 2n+3 blocks, stays below the default recursion limit for n <= 300
        vs = [pt.ScratchVar(u64) for _ in range(n)]
        return Seq(*[v.store(Int(i)) for i, v in enumerate(vs)], Approve())
    if name == "many_vars_sum":
        vs = [pt.ScratchVar(u64) for _ in range(max(n, 1))]
        return Seq(*[v.store(Int(i)) for i, v in enumerate(vs)], pt.Return(pt.Add(*([v.load() for v in vs] + [Int(0)]))))
    if name == "many_subs":         # n subroutines, all called from main
        subs = []
        for i in range(n):
            def mk(i=i):
                @pt.Subroutine(u64, name="s%d" % i)
                def f(a):
                    return a + Int(i)
                return f
            subs.append(mk())
        return Seq(*[Pop(s(Int(1))) for s in subs], Approve())
    if name == "sub_chain":         # s0 calls s1 calls ... s(n-1)
        subs = [None] * (n + 1)
        subs[n] = None
        prev = None
        for i in reversed(range(n)):
            def mk(i=i, nxt=prev):
                @pt.Subroutine(u64, name="c%d" % i)
                def f(a):
                    return (nxt(a) if nxt is not None else a) + Int(1)
                return f
            prev = mk()
        return Seq(Pop(prev(Int(1))) if prev is not None else Pop(Int(1)), Approve())
    if name == "sub_recursive":     # direct recursion with n local variables alive across the call (spilling)
        @pt.Subroutine(u64, name="rec")
        def rec(a):
            vs = [pt.ScratchVar(u64) for _ in range(n)]
            return Seq(*[v.store(a + Int(i)) for i, v in enumerate(vs)],
                       If(a == Int(0)).Then(pt.Return(Int(0))),
                       Pop(rec(a - Int(1))),
                       pt.Return(pt.Add(*([v.load() for v in vs] + [Int(0), Int(0)]))))
        return Seq(Pop(rec(Int(3))), Approve())
    if name == "sub_odd_names":
        names = ["f", "do it", "a-b", "x_1", "l0", "__", "fn.1", "sub\tname", "9lives", "é", "main", "", "a" * 300, "中文", "x//y", "semi;colon", 'q"uote']
        nm = names[n % len(names)]
        try:
            @pt.Subroutine(u64, name=nm)
            def f(a):
                return a + Int(1)
        except TypeError:
            raise
        return Seq(Pop(f(Int(1))), Approve())
    if name == "sub_many_args":
        src = "def f(%s):\n    return %s\n" % (", ".join("a%d" % i for i in range(n)), " + ".join(["Int(0)"] + ["a%d" % i for i in range(n)]))
        ns = {"Int": Int}
        exec(src, ns)
        f = pt.Subroutine(u64)(ns["f"])
        return Seq(Pop(f(*[Int(i) for i in range(n)])), Approve())
    if name == "maybe_values":
        return Seq(*[Seq(mv := pt.App.globalGetEx(Int(0), pt.Bytes("k%d" % i)), Pop(mv.hasValue())) for i in range(n)], Approve())
    if name == "router_methods":
        r = pt.Router("r", pt.BareCallActions(no_op=pt.OnCompleteAction.create_only(Approve())))
        for i in range(n):
            src = "def m%d(a: abi.Uint64, *, output: abi.Uint64):\n    return output.set(a.get() + Int(%d))\n" % (i, i)
            ns = {"abi": pt.abi, "Int": Int}
            exec(src, ns)
            r.add_method_handler(pt.ABIReturnSubroutine(ns["m%d" % i]))
        return ("router", r)
    raise KeyError(name)


def build_recipe(pt, job):
    from build import Builder
    b = Builder(pt)
    for key, name, ret, kinds, body in job.get("subs", []):
        b.define_sub(key, name, ret, kinds, eval(body, {"__builtins__": {}}))
    recipe = eval(job["recipe"], {"__builtins__": {}})
    return b.build(recipe)


def compile_it(pt, prog, job):
    mode = pt.Mode.Application if job.get("app", True) else pt.Mode.Signature
    ss, fp = job.get("ss"), job.get("fp")
    opt = None if ss is None and fp is None else pt.OptimizeOptions(scratch_slots=ss, frame_pointers=fp)
    if "_optimize_obj" in job:
        opt = job["_optimize_obj"]              # ONE OptimizeOptions object shared by all steps of a session
    if isinstance(prog, tuple) and prog[0] == "router_split":
        # the two programs of a router compiled separately, each with its own fresh options object
        ap_ast, cl_ast, _ = prog[1]._build_program(version=job["version"])   # reference only: the ASTs compile_program compiles
        mk = prog[2]
        return pt.compileTeal(ap_ast, pt.Mode.Application, version=job["version"], optimize=mk()) + "\n" + \
            pt.compileTeal(cl_ast, pt.Mode.Application, version=job["version"], optimize=mk())
    if isinstance(prog, tuple) and prog[0] == "router":
        ap, cl, _ = prog[1].compile_program(version=job["version"], optimize=opt)
        return ap + "\n" + cl
    return pt.compileTeal(prog, mode, version=job["version"], optimize=opt, assembleConstants=bool(job.get("assemble_constants", False)))


def attempt(pt, job, timeout):
    """build + compile under an alarm; returns a dict"""
    out = {}
    t0 = time.time()
    signal.signal(signal.SIGALRM, _alarm)
    signal.setitimer(signal.ITIMER_REAL, timeout)
    phase = "build"
    try:
        prog = build_recipe(pt, job) if "recipe" in job else family(pt, job["family"], job["n"])
        out["build_s"] = round(time.time() - t0, 3)
        phase = "compile"
        out["base_depth"] = stack_depth()
        t1 = time.time()
        teal = compile_it(pt, prog, job)
        out["compile_s"] = round(time.time() - t1, 3)
        out.update({"outcome": "teal", "lines": len(teal.split("\n"))})
        if job.get("want_teal"):
            out["teal"] = teal
    except Timeout:
        out.update({"outcome": "timeout", "phase": phase, "after_s": round(time.time() - t0, 1)})
    except RecursionError as e:
        out.update({"outcome": "crash", "phase": phase, "exc": "RecursionError", "tb": tb_summary(e)})
    except BaseException as e:  # noqa
        if isinstance(e, (KeyboardInterrupt, SystemExit)):
            raise
        kind = "pyteal" if is_pyteal_error(pt, e) else "crash"
        out.update({"outcome": kind, "phase": phase, "exc": type(e).__name__, "msg": str(e)[:200].replace("\n", " "), "tb": tb_summary(e)})
    finally:
        signal.setitimer(signal.ITIMER_REAL, 0)
    return out


def deep_attempt(pt, job, timeout):
    """phase 2: same program with a deep stack; records the peak call depth"""
    res = {}

    def run():
        sys.setrecursionlimit(200000)
        peak = [0, 0]
        mon = sys.monitoring
        E = mon.events
        tool = 3

        def on_start(code, off):
            peak[1] += 1
            if peak[1] > peak[0]:
                peak[0] = peak[1]

        def on_leave(code, off, val):
            peak[1] -= 1
        t0 = time.time()
        try:
            prog = build_recipe(pt, job) if "recipe" in job else family(pt, job["family"], job["n"])
            base = stack_depth()
            # PEP 669 monitoring: function entries/exits only (generator resumptions are not subscribed, so the
            # quadratic number of genexpr steps inside the walks costs nothing)
            mon.use_tool_id(tool, "c20")
            mon.register_callback(tool, E.PY_START, on_start)
            mon.register_callback(tool, E.PY_RETURN, on_leave)
            mon.register_callback(tool, E.PY_UNWIND, on_leave)
            mon.set_events(tool, E.PY_START | E.PY_RETURN | E.PY_UNWIND)
            try:
                teal = compile_it(pt, prog, job)
            finally:
                mon.set_events(tool, 0)
                mon.free_tool_id(tool)
            res.update({"outcome": "teal", "lines": len(teal.split("\n")), "peak_depth": peak[0] + base})
        except RecursionError as e:
            res.update({"outcome": "crash", "exc": "RecursionError", "tb": tb_summary(e), "peak_depth": peak[0]})
        except MemoryError:
            res.update({"outcome": "crash", "exc": "MemoryError", "peak_depth": peak[0]})
        except BaseException as e:  # noqa
            kind = "pyteal" if is_pyteal_error(pt, e) else "crash"
            res.update({"outcome": kind, "exc": type(e).__name__, "msg": str(e)[:200], "peak_depth": peak[0]})
        res["s"] = round(time.time() - t0, 2)

    default_limit = sys.getrecursionlimit()
    threading.stack_size(64 * 1024 * 1024)
    th = threading.Thread(target=run, daemon=True)
    th.start()
    th.join(timeout)
    if th.is_alive():
        # the thread cannot be stopped and the raised limit cannot be restored safely: the parent restarts the worker
        return {"outcome": "timeout", "after_s": timeout, "worker_must_exit": True}
    sys.setrecursionlimit(default_limit)
    threading.stack_size(0)
    return res


# ---------------------------------------------------------------------------------------------
# sessions: several compilations in ONE interpreter (totality must not depend on what was compiled before)
# ---------------------------------------------------------------------------------------------
def session_program(pt, name, version):
    """-> expression (or ('router', r)); built fresh for every step"""
    Int, Seq, Pop, Approve, Bytes, abi = pt.Int, pt.Seq, pt.Pop, pt.Approve, pt.Bytes, pt.abi
    u64 = pt.TealType.uint64
    # ---- programs that must be REFUSED (the prelude)
    if name == "sub_illtyped_body":
        @pt.Subroutine(u64)
        def ill_typed(x):
            return x + Bytes("oops")
        return Seq(Pop(ill_typed(Int(1))), Approve())
    if name == "sub_illtyped_body_byref":
        @pt.Subroutine(pt.TealType.none)
        def ill_ref(x: pt.ScratchVar):
            return x.store(Bytes("a") + Int(1))
        v = pt.ScratchVar(u64)
        return Seq(v.store(Int(1)), ill_ref(v), Approve())
    if name == "abi_sub_illtyped_body":
        @pt.ABIReturnSubroutine
        def ill_abi(a: abi.Uint64, *, output: abi.Uint64):
            return output.set(a.get() + Bytes("x"))
        a = abi.Uint64()
        r = abi.Uint64()
        return Seq(a.set(Int(1)), ill_abi(a).store_into(r), Approve())
    if name == "sub_body_raises":
        @pt.Subroutine(u64)
        def boom(x):
            raise ValueError("user code")
        return Seq(Pop(boom(Int(1))), Approve())
    if name == "break_outside":
        return Seq(pt.Break(), Approve())
    if name == "op_too_new":
        return Seq(Pop(pt.Sqrt(Int(4))), Pop(pt.BytesZero(Int(3))), Approve())
    if name == "too_many_slots":
        vs = [pt.ScratchVar(u64) for _ in range(257)]
        return Seq(*[v.store(Int(i)) for i, v in enumerate(vs)], Approve())
    if name == "return_bytes_main":
        return pt.Return(Bytes("x"))
    if name == "router_empty":
        return ("router", pt.Router("r"))
    if name == "router_illtyped_method":
        r = pt.Router("r", pt.BareCallActions(no_op=pt.OnCompleteAction.create_only(Approve())))

        @pt.ABIReturnSubroutine
        def m(a: abi.Uint64, *, output: abi.Uint64):
            return output.set(a.get() + Bytes("x"))
        r.add_method_handler(m)
        return ("router", r)
    # ---- programs for the shared-OptimizeOptions sessions
    if name == "reserved_slot_main":
        a = pt.ScratchVar(u64, 10)
        return Seq(a.store(Int(1)), pt.Return(a.load()))
    if name == "dynamic_slot_main":
        x = pt.ScratchVar(u64)
        d = pt.DynamicScratchVar(u64)
        return Seq(x.store(Int(1)), d.set_index(x), d.store(Int(2)), pt.Return(d.load()))
    if name == "shared_slot_sub":
        h = pt.ScratchVar(u64)

        @pt.Subroutine(u64)
        def read_h():
            return h.load() + Int(1)
        return Seq(h.store(Int(3)), pt.Return(read_h()))
    if name == "global_storeload":
        g = pt.ScratchVar(u64)

        @pt.Subroutine(u64)
        def read_g():
            return g.load()
        return Seq(g.store(Int(5)), Pop(g.load()), pt.Return(read_g()))
    if name == "global_storeload_in_sub":
        g = pt.ScratchVar(u64)

        @pt.Subroutine(u64)
        def bump():
            return Seq(g.store(g.load() + Int(1)), g.load())
        return Seq(g.store(Int(5)), Pop(bump()), pt.Return(g.load()))
    if name in ("router_pair_combined", "router_pair_split"):
        r = pt.Router("r", pt.BareCallActions(
            no_op=pt.OnCompleteAction.create_only(Seq((a := pt.ScratchVar(u64, 10)).store(Int(1)), Pop(a.load()), Approve()))),
            clear_state=session_program(pt, "global_storeload", version))
        if name == "router_pair_combined":
            return ("router", r)
        return ("router_split", r, lambda: pt.OptimizeOptions(scratch_slots=True))
    # ---- programs that must be ACCEPTED wherever their constructs exist (the acceptance slice)
    if name == "abi_uint64_main":
        a = abi.Uint64()
        return Seq(a.set(Int(5)), a.get())
    if name == "abi_bool_byte_main":
        b = abi.Bool()
        c = abi.Byte()
        return Seq(b.set(Int(1)), c.set(Int(7)), Pop(b.get()), pt.Return(c.get()))
    if name == "abi_two_values_loop":
        a = abi.Uint64()
        b = abi.Uint16()
        return Seq(a.set(Int(0)), b.set(Int(3)), pt.While(a.get() < b.get()).Do(a.set(a.get() + Int(1))), pt.Return(a.get()))
    if name == "abi_string_main":
        s_ = abi.String()
        return Seq(s_.set(Bytes("hi")), Pop(s_.length()), Approve())
    if name == "scratchvar_main":
        x = pt.ScratchVar(u64)
        return Seq(x.store(Int(5)), pt.Return(x.load()))
    if name == "loop_first":
        return Seq(pt.While(pt.Txn.fee() < Int(3)).Do(Pop(Int(1))), Approve())
    if name == "long_pop_50":
        return Seq(*[Pop(Int(i)) for i in range(50)], Approve())
    if name == "sub_ok":
        @pt.Subroutine(u64)
        def fine(x):
            return x + Int(1)
        return Seq(Pop(fine(Int(1))), Approve())
    if name == "abi_sub_ok":
        @pt.ABIReturnSubroutine
        def add1(a: abi.Uint64, *, output: abi.Uint64):
            return output.set(a.get() + Int(1))
        a = abi.Uint64()
        r = abi.Uint64()
        return Seq(a.set(Int(1)), add1(a).store_into(r), pt.Return(r.get()))
    if name == "router_ok":
        r = pt.Router("r", pt.BareCallActions(no_op=pt.OnCompleteAction.create_only(Approve())))

        @pt.ABIReturnSubroutine
        def add2(a: abi.Uint64, *, output: abi.Uint64):
            return output.set(a.get() + Int(2))
        r.add_method_handler(add2)
        return ("router", r)
    raise KeyError(name)


def run_session(pt, job):
    import hashlib
    steps = []
    shared = None
    if "shared_optimize" in job:
        so = job["shared_optimize"]
        shared = pt.OptimizeOptions() if so == "default" else pt.OptimizeOptions(scratch_slots=True)
    for st_ in job["session"]:
        j = dict(st_)
        j.setdefault("app", True)
        if shared is not None:
            j["_optimize_obj"] = shared
        elif job.get("fresh_optimize"):
            j["_optimize_obj"] = pt.OptimizeOptions() if job["fresh_optimize"] == "default" else pt.OptimizeOptions(scratch_slots=True)
        out = {"prog": st_["prog"], "version": st_["version"]}
        signal.signal(signal.SIGALRM, _alarm)
        signal.setitimer(signal.ITIMER_REAL, job.get("timeout", 30))
        try:
            prog = session_program(pt, st_["prog"], st_["version"])
            teal = compile_it(pt, prog, j)
            out.update({"outcome": "teal", "sha": hashlib.sha1(teal.encode()).hexdigest()[:12], "lines": len(teal.split("\n")),
                        "frame_ops_in_main": any(l.startswith("frame_") for l in teal.split("\n")[:6])})
        except Timeout:
            out.update({"outcome": "timeout"})
        except RecursionError as e:
            out.update({"outcome": "crash", "exc": "RecursionError", "tb": tb_summary(e)})
        except BaseException as e:  # noqa
            if isinstance(e, (KeyboardInterrupt, SystemExit)):
                raise
            kind = "pyteal" if is_pyteal_error(pt, e) else "crash"
            if kind == "crash" and st_["prog"] == "sub_body_raises" and isinstance(e, ValueError) and str(e) == "user code":
                kind = "user-exception"       # raised by the user's own subroutine body, passed through
            out.update({"outcome": kind, "exc": type(e).__name__, "msg": str(e)[:160].replace("\n", " "), "tb": tb_summary(e)})
        finally:
            signal.setitimer(signal.ITIMER_REAL, 0)
        steps.append(out)
    return {"outcome": "session", "steps": steps}


def main():
    import pyteal as pt
    default_limit = sys.getrecursionlimit()
    for line in sys.stdin:
        line = line.strip()
        if not line:
            continue
        job = json.loads(line)
        if "session" in job:
            r = run_session(pt, job)
            r["job"] = job
            sys.stdout.write(json.dumps(r) + "\n")
            sys.stdout.flush()
            continue
        r = attempt(pt, job, job.get("timeout", 30))
        r["recursion_limit"] = default_limit
        if r.get("outcome") == "crash" and r.get("exc") == "RecursionError" and job.get("deep", True):
            r["deep"] = deep_attempt(pt, job, job.get("deep_timeout", 60))
        r["job"] = {k: job[k] for k in job if k != "recipe"}
        assert sys.getrecursionlimit() == default_limit or (r.get("deep") or {}).get("worker_must_exit")
        sys.stdout.write(json.dumps(r) + "\n")
        sys.stdout.flush()
        if (r.get("deep") or {}).get("worker_must_exit"):
            os._exit(0)


if __name__ == "__main__":
    main()
