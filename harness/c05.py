"""C05 — emitted code keeps stack and type discipline on every path.

(1) proofs: Props/C05.v (soundness of the verified checker AVM/StackCheck.v for every program and path);
(2) the extracted checker on the REAL compileTeal output of generated programs (main-routine programs from
    progcorpus/gen_prog, subroutine programs from c05_gen), all versions/options; field-type table tie;
(3) dynamic cross-check, independent of the checker: the real TEAL runs on the extracted AVM and no run may
    end in a type / underflow / frame failure, nor leave extra values at `return` in the main routine;
(4) known findings replayed against the real compiler, each with a class predicate;
(5) verdict; --replay re-checks a stored case."""
import json
import re
import sys

from common import *  # noqa

ensure_env()
from progcorpus import small_recipes, random_case_params, mode_of, optimize_of  # noqa
from build import Builder  # noqa
from gen_prog import Gen, gen_context, I, B  # noqa
import c05_gen  # noqa
import c05_router  # noqa
import c05_illtyped  # noqa
import c05_tails  # noqa
import c05_abirec  # noqa
import progcorpus  # noqa
from c03 import store_dense_recipe  # noqa  (shared with C03: store/load-dense main routines)

PROOF_FILES = ["Proofs/StackSigProof.v", "Proofs/StackSigPool.v", "Proofs/StackCheckSound.v"]
SHAPE_CLASSES = ("shape", "frame", "label", "off-end")


# ------------------------------------------------------------------------------------------------
# talking to the extracted checker / machine
# ------------------------------------------------------------------------------------------------
def decl_sx(decl):
    return "(decl " + " ".join("(%s (%s) (%s))" % (sx(l), " ".join(a), " ".join(r)) for l, a, r in decl) + ")"


def msel_sx(msel):
    return "(msel " + " ".join("(%s %s)" % (sx(sig), sx(bytes(sel))) for sig, sel in msel) + ")"


def static_check(model, teal, decl, msel=()):
    """-> dict(kind=accept|reject|uncovered|fuel|parse-error|error, ...)"""
    res = model.ask("(check %s %s %s)" % (decl_sx(decl), msel_sx(msel), sx(teal)))
    k = res[0].name if isinstance(res, list) and res else "error"
    if k == "accept":
        return {"kind": "accept", "strict": res[1][1] == S("true"), "pcs": res[2][1]}
    if k == "reject":
        return {"kind": "reject", "pc": res[1], "msg": res[2], "op": res[3]}
    if k == "uncovered":
        return {"kind": "uncovered", "pc": res[1], "msg": res[2]}
    if k == "fuel":
        return {"kind": "fuel"}
    if k == "parse-error":
        return {"kind": "parse-error"}
    return {"kind": "error", "raw": repr(res)[:300]}


def dyn_run(model, ctx, teal, msel=()):
    """-> dict(verdict, pc, cls, typed, calls, op, height) or None when the answer is not a (ran ...)"""
    if msel:
        ctx = tuple(ctx) + ((S("msel"),) + tuple((sig, bytes(sel)) for sig, sel in msel),)
    res = model.ask("(run5 %s %s)" % (sx(ctx), sx(teal)))
    if not isinstance(res, list) or not res or res[0] != S("ran"):
        return None
    v = res[1]
    verdict = v.name if isinstance(v, Sym) else "unsup:" + str(v[1])
    return {"verdict": verdict, "pc": res[2][1], "cls": res[3][1].name, "typed": res[4][1] == S("true"),
            "calls": res[5][1], "op": res[6][1], "height": len(res[7]) - 1}


# ------------------------------------------------------------------------------------------------
# class predicates of the known findings
# ------------------------------------------------------------------------------------------------
OPERAND_NODES = ("op", "nary", "assert", "multi", "wide", "call", "pstore", "abiset", "oset", "abicall")


def ctrl_in_operand(r, in_op=False):
    """A Break/Continue/Return/Exit evaluated while an operand of an enclosing operator may be on the stack."""
    if r in ("break", "continue"):
        return in_op
    if not isinstance(r, tuple) or not r:
        return False
    k = r[0]
    if k in ("return", "exit"):
        return in_op or any(ctrl_in_operand(x, True) for x in r[1:] if isinstance(x, tuple))
    if k in OPERAND_NODES:
        return any(ctrl_in_operand(x, True) for x in r[1:] if isinstance(x, tuple))
    if k == "seq":
        return any(ctrl_in_operand(x, in_op) for x in r[1:])
    if k == "if":
        return ctrl_in_operand(r[1], True) or any(ctrl_in_operand(x, in_op) for x in r[2:])
    if k == "cond":
        return any(ctrl_in_operand(c, True) or ctrl_in_operand(v, in_op) for (c, v) in r[1:])
    if k == "while":
        return ctrl_in_operand(r[1], True) or ctrl_in_operand(r[2], in_op)
    if k == "for":
        return ctrl_in_operand(r[1], in_op) or ctrl_in_operand(r[2], True) or ctrl_in_operand(r[3], in_op) or ctrl_in_operand(r[4], in_op)
    return any(ctrl_in_operand(x, in_op) for x in r if isinstance(x, tuple))


def optimiser_orphans(pt, compile_fn):
    """Observe the REAL optimiser (instrumented from outside, /repo untouched): run compile_fn() with
    pyteal.compiler.compiler.apply_global_optimizations wrapped, and report for which routines it removed more
    `store s` than `load s` ops of some slot s (a store without cancelling load: its value stays on the stack)."""
    import pyteal.compiler.compiler as CC
    from pyteal.ir import TealBlock, Op

    def counts(start):
        c = {}
        for block in TealBlock.Iterate(start):
            for op in block.ops:
                o = op.getOp()
                if o in (Op.store, Op.load) and op.args:
                    a = op.args[0]
                    d = c.setdefault(a if isinstance(a, int) else id(a), [0, 0])
                    d[0 if o == Op.store else 1] += 1
        return c

    found = []
    orig = CC.apply_global_optimizations

    def wrapped(start, *a, **kw):
        before = counts(start)
        out = orig(start, *a, **kw)
        after = counts(out)
        for k, (st, ld) in before.items():
            st2, ld2 = after.get(k, [0, 0])
            if (st - st2) > (ld - ld2):
                found.append((st - st2, ld - ld2))
        return out

    CC.apply_global_optimizations = wrapped
    try:
        compile_fn()
    finally:
        CC.apply_global_optimizations = orig
    return found


# ------------------------------------------------------------------------------------------------
# cases
# ------------------------------------------------------------------------------------------------
class Case:
    """One compiled program: how to rebuild it, its real TEAL, the declared subroutine signatures."""

    def __init__(self, kind, recipe, subdefs, version, app, ss, fp):
        self.kind, self.recipe, self.subdefs = kind, recipe, subdefs
        self.version, self.app, self.ss, self.fp = version, app, ss, fp
        self.real = None
        self.decl = []

    def compile(self, pt, ss="same"):
        ss_ = self.ss if ss == "same" else ss
        b = c05_gen.C05Builder(pt, self.subdefs)
        r = call_real(b.build, self.recipe)
        if r[0] != "ok":
            return ("build-exc", r[1], r[2])
        return call_real(lambda: pt.compileTeal(r[1], mode_of(pt, self.app), version=self.version, optimize=optimize_of(pt, ss_, self.fp)))

    def declare(self, teal):
        """declared signature of every subroutine label that occurs (types TOP FIRST)"""
        by_key = {sd["key"]: sd for sd in self.subdefs}
        decl = []
        for m in re.finditer(r"^(s\d+)_(\d+):$", teal, re.M):
            sd = by_key.get(m.group(1))
            if sd is None:
                continue
            # by-reference: the slot index; ABI values travel as their storage type (uint64 / encoded bytes)
            args = ["u" if k == "r" else t for k, t in zip(sd["kinds"], sd["ptypes"])][::-1]
            rets = [] if sd["ret"] == "n" else [sd["ret"]]
            decl.append((m.group(0)[:-1], args, rets))
        return decl

    def has_ctrl_in_operand(self):
        return ctrl_in_operand(self.recipe) or any(ctrl_in_operand(sd["body"]) for sd in self.subdefs)

    def optimiser_on(self):
        return self.ss is True or (self.ss is None and self.version >= 9)

    def describe(self):
        return {"kind": self.kind, "recipe": repr(self.recipe), "subdefs": repr(self.subdefs), "version": self.version,
                "mode": "app" if self.app else "sig", "scratch_slots": self.ss, "frame_pointers": self.fp,
                "teal": self.real[1].split("\n") if self.real and self.real[0] == "ok" else repr(self.real), "decl": self.decl}


class DenseCase(Case):
    """A store/load-dense main routine (c03.store_dense_recipe), compiled through progcorpus.compile_case so that the
    faithful Coq compile model (main binary) sees the same recipe: its known-finding class is decided by the model."""

    def __init__(self, main_model, recipe, reserve, version, app, ss, fp):
        super().__init__("dense", recipe, [], version, app, ss, fp)
        self.main_model, self.reserve, self.pc = main_model, dict(reserve), None

    def compile(self, pt, ss="same"):
        ss_ = self.ss if ss == "same" else ss

        def prepare(b):
            for k, i in self.reserve.items():
                b.request_slot(k, i)
        pc = progcorpus.compile_case(pt, self.main_model, self.recipe, self.version, self.app, ss_, self.fp, prepare=prepare)
        if ss == "same":
            self.pc = pc
        return pc.real

    def model_known_orphan(self):
        """the coordinator's class: the model reproduces the real text exactly AND its optimiser deletes orphan stores"""
        pc = self.pc
        if pc is None or pc.real[0] != "ok" or progcorpus.same_outcome(pc) is not True:
            return False
        r = self.main_model.ask("(opt-orphans %s %s)" % (pc.wire_opts, pc.wire_prog))
        return isinstance(r, list) and bool(r) and r[0] == S("ok") and len(r) > 1

    def describe(self):
        d = super().describe()
        d["reserve"] = self.reserve
        d["model_text_equal"] = progcorpus.same_outcome(self.pc) if self.pc is not None else None
        return d


def classify_known(ck, pt, model, c, st):
    """Which known finding (if any) explains a rejected / misbehaving case?  Class predicates only."""
    if c.has_ctrl_in_operand():
        f = ck.match_known(lambda f: f["id"] == "ctrl-in-operand")
        if f:
            return f
    if c.kind == "illtyped":
        # no known class: every typing defect of the stream must be rejected by the compiler (mixed If/ElseIf arms were repaired by
        # /repo ef38ba1, the anytype arm bridging two concrete types by d66e99a), so an accepted-and-misbehaving one is a VIOLATION
        return None
    if isinstance(c, DenseCase):
        # class decided by the faithful compile model, so that a changed optimiser is never mistaken for the pinned one
        if c.optimiser_on() and c.model_known_orphan():
            return ck.match_known(lambda f: f["id"] == "optimizer-orphan-store")
        return None
    if c.optimiser_on() and optimiser_orphans(pt, lambda: c.compile(pt)):
        r = c.compile(pt, ss=False)
        if r[0] == "ok" and static_check(model, r[1], c.declare(r[1]), c.msel(r[1]) if hasattr(c, "msel") else ())["kind"] == "accept":
            f = ck.match_known(lambda f: f["id"] == "optimizer-orphan-store")
            if f:
                return f
    return None


# ------------------------------------------------------------------------------------------------
# the known findings, replayed on the real compiler
# ------------------------------------------------------------------------------------------------
def replay_known(ck, pt, model):
    out = {}
    # (a) orphan-store deletion, main routine and inside a subroutine
    x = ("slot", "x")
    main = ("seq", ("op", "store", (x,), "n", (I(1),)), ("op", "store", (x,), "n", (I(2),)), ("return", ("op", "load", (x,), "u", ())))
    c = Case("known", main, [], 6, True, True, None)
    c.real = c.compile(pt)
    if c.real[0] == "ok":
        st = static_check(model, c.real[1], [])
        un = c.compile(pt, ss=False)
        d = dyn_run(model, gen_context(ck.rng, True), c.real[1])
        out["orphan-main"] = (st, d)
        if st["kind"] == "reject" and un[0] == "ok" and optimiser_orphans(pt, lambda: c.compile(pt)) and static_check(model, un[1], [])["kind"] == "accept":
            ck.known("optimizer-orphan-store", "optimiser (scratch_slots=True) deletes both stores of x.store(1); x.store(2); Return(x.load()) -> `%s`: the routine exits with %s values"
                     % ("; ".join(c.real[1].split("\n")[1:]), d["height"] if d else "?"))
    sub = {"key": "s0", "kinds": ["v"], "ptypes": ["u"], "ret": "u", "rec": None, "nabi": 0,
           "body": ("seq", ("op", "store", (x,), "n", (("param", 0),)), ("op", "store", (x,), "n", (I(2),)), ("return", ("op", "load", (x,), "u", ())))}
    c2 = Case("known", ("return", ("op", "-", (), "u", (I(10), ("call", "s0", (I(7),))))), [sub], 6, True, True, None)
    c2.real = c2.compile(pt)
    if c2.real[0] == "ok":
        c2.decl = c2.declare(c2.real[1])
        st = static_check(model, c2.real[1], c2.decl)
        d = dyn_run(model, gen_context(ck.rng, True), c2.real[1])
        out["orphan-sub"] = (st, d)
        if st["kind"] == "reject" and classify_known(ck, pt, model, c2, st):
            ck.known("optimizer-orphan-store", "same inside a subroutine: the argument stays on the caller's stack (retsub sees 2 cells for 1 declared result; Int(10) - f(Int(7)) leaves %s cells at return)" % (d["height"] if d else "?"))
    # (b) control transfer inside an operand
    sub = {"key": "s0", "kinds": ["v"], "ptypes": ["u"], "ret": "u", "rec": None, "nabi": 0,
           "body": ("nary", "+", "u", (I(5), ("seq", ("return", ("param", 0)), I(2))))}
    c3 = Case("known", ("return", ("op", "-", (), "u", (I(10), ("call", "s0", (I(3),))))), [sub], 6, True, None, None)
    c3.real = c3.compile(pt)
    if c3.real[0] == "ok":
        c3.decl = c3.declare(c3.real[1])
        st = static_check(model, c3.real[1], c3.decl)
        out["ctrl-return"] = (st, None)
        if st["kind"] == "reject" and c3.has_ctrl_in_operand():
            ck.known("ctrl-in-operand", "Return inside an operand (Int(5) + Seq(Return(a), Int(2)) in a subroutine): retsub with an operand still on the stack (%s)" % st["msg"])
    i = ("slot", "i")
    ld = ("op", "load", (i,), "u", ())
    body = ("seq", ("op", "store", (i,), "n", (("nary", "+", "u", (ld, I(1))),)),
            ("op", "pop", (), "n", (("nary", "+", "u", (I(7), ("seq", ("if", ("op", "==", (), "u", (ld, I(2))), "continue"), I(2)))),)))
    main = ("seq", ("op", "store", (i,), "n", (I(0),)), ("while", ("op", "<", (), "u", (ld, I(3))), body), ("exit", I(1)))
    c4 = Case("known", main, [], 6, True, None, None)
    c4.real = c4.compile(pt)
    if c4.real[0] == "ok":
        st = static_check(model, c4.real[1], [])
        d = dyn_run(model, gen_context(ck.rng, True), c4.real[1])
        out["ctrl-continue"] = (st, d)
        if st["kind"] == "reject" and c4.has_ctrl_in_operand():
            ck.known("ctrl-in-operand", "Continue inside an operand in a loop: paths join at the loop head with different heights (%s cells left at return)" % (d["height"] if d else "?"))
    return out


# ------------------------------------------------------------------------------------------------
# field-type tables
# ------------------------------------------------------------------------------------------------
def field_table_tie(ck, pt, model):
    code = {"uint64": "u", "bytes": "b"}
    bad = []
    n = 0
    for grp, enum in (("txn", pt.TxnField), ("global", pt.GlobalField)):
        for f in enum:
            n += 1
            ck.count(("field", grp, f.arg_name), nontrivial=False)
            mine = model.ask("(fieldty %s %s)" % (grp, sx(f.arg_name)))
            mine = mine.name if isinstance(mine, Sym) else "?"
            real = code.get(getattr(f.type_of(), "name", "?"), "?")
            if mine == "a":
                ck.coverage.setdefault("fields_unknown_to_langspec", []).append("%s %s" % (grp, f.arg_name))
            elif mine != real:
                bad.append((grp, f.arg_name, real, mine))
    ck.coverage["field_types_compared"] = n
    return bad


# ------------------------------------------------------------------------------------------------
def replay(path):
    import pyteal as pt
    data = json.load(open(path))
    print(json.dumps({k: data[k] for k in data if k in ("what", "kind", "broken", "static", "dynamic")}, indent=1, default=repr))
    model = Model("c05")
    rc = 0
    case = data.get("case")
    if case and isinstance(case.get("teal"), list):
        msel = [(sig, bytes.fromhex(h)) for sig, h in case.get("msel", [])]
        st = static_check(model, "\n".join(case["teal"]), [tuple(d) for d in case["decl"]], msel)
        print("stored TEAL  :", st)
        rc = 1 if st["kind"] == "reject" else rc
        if "ctx" in data:
            d = dyn_run(model, parse_sx(data["ctx"]), "\n".join(case["teal"]), msel)
            print("stored run   :", d)
            if d and (d["cls"] in SHAPE_CLASSES):
                rc = 1
        if case["kind"] == "router":
            c = c05_router.RouterCase(case["router"], case["which"], case["version"], case["scratch_slots"], case["frame_pointers"])
        elif case["kind"] == "abirec":
            c = c05_abirec.AbiRecCase(case["program"], case["version"], case["scratch_slots"], case["frame_pointers"], case.get("slow", False))
        elif case["kind"] == "illtyped":
            c = c05_illtyped.IllCase(case["defect"], case["context"], case["version"], case["frame_pointers"], case.get("flavour", 0), case.get("whole", False))
        elif case["kind"] == "dense":
            c = DenseCase(Model(), eval(case["recipe"]), case.get("reserve", {}), case["version"], case["mode"] == "app", case["scratch_slots"], case["frame_pointers"])
        else:
            c = Case(case["kind"], eval(case["recipe"]), eval(case["subdefs"]), case["version"], case["mode"] == "app", case["scratch_slots"], case["frame_pointers"])
        c.real = c.compile(pt)
        if c.real[0] == "ok":
            st2 = static_check(model, c.real[1], c.declare(c.real[1]), c.msel(c.real[1]) if hasattr(c, "msel") else ())
            print("recompiled   :", st2)
            rc = 1 if st2["kind"] == "reject" else rc
        else:
            print("recompiled   :", c.real[:2])
    return rc


def main(argv):
    args = parse_args(argv)
    if args.replay:
        return replay(args.replay)
    ck = Check("C05", args.tier)
    thorough = args.tier == "thorough"
    import pyteal as pt
    ck.run_proofs("Props/C05.v", PROOF_FILES, extra_targets=["Extract/Main_c05.vo", "Extract/Main.vo"])
    model = Model("c05")
    rng = ck.rng
    stats = {"accept": 0, "accept_strict": 0, "reject": 0, "uncovered": 0, "fuel": 0, "compile_error": 0, "unbuildable": 0}
    dyn = {}
    reject_msgs = {}
    uncovered_msgs = {}
    hist = {}
    problems = []          # (what, replay)
    opt_matrix = {}

    def consider(c, nctx):
        c.real = c.compile(pt)
        if c.real[0] == "build-exc":
            stats["unbuildable"] += 1
            return
        if c.real[0] != "ok":
            stats["compile_error"] += 1
            ck.count(("compile-error", c.kind, repr(c.recipe)[:200], c.version), nontrivial=False)
            if c.real[1] not in PYTEAL_ERRORS and c.real[1] not in ("RecursionError", "AssertionError"):
                pass  # crashes are C20's business
            return
        teal = c.real[1]
        c.decl = c.declare(teal)
        msel = c.msel(teal) if hasattr(c, "msel") else ()
        st = static_check(model, teal, c.decl, msel)
        ck.count(("static", teal, c.version, c.app), nontrivial=True)
        key = (c.version, "app" if c.app else "sig", str(c.ss), str(c.fp))
        opt_matrix[key] = opt_matrix.get(key, 0) + 1
        if st["kind"] == "accept":
            stats["accept"] += 1
            stats["accept_strict"] += 1 if st["strict"] else 0
        elif st["kind"] == "reject":
            stats["reject"] += 1
            reject_msgs[st["msg"]] = reject_msgs.get(st["msg"], 0) + 1
            f = classify_known(ck, pt, model, c, st)
            if f:
                ck.known(f["id"], "%s (generated case: %s at pc %s `%s`)" % (f["what"], st["msg"], st["pc"], st["op"]))
            else:
                problems.append(("the stack checker rejects real compileTeal output: %s at pc %s (`%s`)" % (st["msg"], st["pc"], st["op"]),
                                 {"kind": "static", "static": st, "case": c.describe()}))
        elif st["kind"] == "uncovered":
            stats["uncovered"] += 1
            uncovered_msgs[st["msg"]] = uncovered_msgs.get(st["msg"], 0) + 1
            if c.kind == "router":
                # the directed router set declares every routine PyTeal is expected to emit: an unknown one is a finding
                problems.append(("a Router-built program contains a routine no declaration accounts for: %s at pc %s" % (st["msg"], st["pc"]),
                                 {"kind": "static", "static": st, "case": c.describe()}))
        elif st["kind"] == "fuel":
            stats["fuel"] += 1
        else:
            ck.model_problem("checker could not read real TEAL (%s): %s" % (st["kind"], teal[:200].replace("\n", "; ")))
        # dynamic cross-check (independent of the checker's verdict)
        ctxs = c.contexts(rng) if hasattr(c, "contexts") else [gen_context(rng, c.app) + ((S("boxes"), (b"b1", b"box one"), (b"b2", b"")),) for _ in range(nctx)]
        for ctx in ctxs:
            d = dyn_run(model, ctx, teal, msel)
            if d is None:
                dyn["unreadable"] = dyn.get("unreadable", 0) + 1
                continue
            ck.count(("dyn", teal, sx(ctx)), nontrivial=True)
            k = d["verdict"] if d["verdict"] != "fail" else "fail:" + d["cls"]
            if d["verdict"].startswith("unsup"):
                k = "inconclusive"
            dyn[k] = dyn.get(k, 0) + 1
            bad = None
            if d["verdict"] == "fail" and d["typed"] and st["kind"] == "accept" and (
                    (st["strict"] and d["cls"] in SHAPE_CLASSES) or d["cls"] in ("frame", "label", "off-end")):
                # excluded by C05_no_anytype_no_type_error / C05_no_underflow_or_frame_failure: the machinery is inconsistent
                ck.model_problem("theorem contradicted by an execution: checker accepted (strict=%s) but the run ends in a %s failure at pc %s (`%s`)"
                                 % (st["strict"], d["cls"], d["pc"], d["op"]))
            if d["verdict"] == "fail" and d["cls"] in SHAPE_CLASSES and d["typed"]:
                bad = "a run of the real TEAL ends in a %s failure at pc %s (`%s`)" % (d["cls"], d["pc"], d["op"])
            elif d["verdict"] in ("approve", "reject") and d["op"] == "return" and d["calls"] == 0 and d["height"] != 1:
                bad = "the main routine reaches `return` with %d values on the stack" % d["height"]
            if bad:
                f = classify_known(ck, pt, model, c, st)
                if f:
                    ck.known(f["id"], "%s (observed in execution: %s)" % (f["what"], bad))
                else:
                    problems.append((bad, {"kind": "dynamic", "dynamic": d, "static": st, "ctx": sx(ctx), "case": c.describe()}))
                break
        if st["kind"] == "accept":
            ck.sample({"kind": c.kind, "version": c.version, "mode": "app" if c.app else "sig", "fp": c.fp, "ss": c.ss,
                       "teal_lines": len(teal.split("\n")), "subroutines": len(c.decl), "strict": st["strict"]}, limit=6)

    # ---- field tables
    bad_fields = field_table_tie(ck, pt, model)
    for (grp, name, real, mine) in bad_fields[:5]:
        problems.append(("PyTeal declares field %s %s as %s, the langspec table says %s" % (grp, name, real, mine),
                         {"kind": "field-type", "group": grp, "field": name, "pyteal": real, "langspec": mine}))

    # ---- known findings first (corpus of earlier failures)
    known_out = replay_known(ck, pt, model)
    ck.coverage["known_replay"] = {k: (v[0].get("kind"), v[0].get("msg")) for k, v in known_out.items()}

    # ---- 0. directed: Router-built programs x versions 6..10 x OptimizeOptions matrix (approval and clear-state programs)
    nrouter = 0
    for c in c05_router.all_cases():
        consider(c, 0)
        nrouter += 1
    ck.coverage["router_cases"] = nrouter
    ck.coverage["router_matrix"] = "routers %s x versions 6..10 x optimize in %s x {approval, clear}" % (sorted(c05_router.ROUTERS), [o[0] for o in c05_router.OPTS])

    # ---- 0a. the "nearly well-typed" stream: one typing defect per program; the compiler should reject, an acceptance is checked
    before = (stats["compile_error"], stats["accept"] + stats["reject"] + stats["uncovered"] + stats["fuel"])
    n_ill = 0
    ill_accepted = {}
    import itertools as _it
    for c in _it.chain(c05_illtyped.all_cases(), c05_illtyped.exhaustive_cases(pt)):
        consider(c, 3)
        n_ill += 1
        if c.real and c.real[0] == "ok":
            fam = c.dname if not c.dname.startswith(("op:", "chain:")) else c.dname.rsplit(":", 1)[0] if c.dname.startswith("chain:") else "op (well-typed operand assignments)"
            ill_accepted[fam] = ill_accepted.get(fam, 0) + 1
            if c.dname.startswith("chain:"):
                ck.coverage.setdefault("chain_arm_types_accepted_by_compiler", []).append(c.dname[6:])
        elif c.real and c.real[1] not in PYTEAL_ERRORS:
            ck.notes.append("ill-typed program %s/%s crashed the compiler with %s (C20's business)" % (c.dname, c.ctx, c.real[1]))
    ck.coverage["illtyped_stream"] = {"offered": n_ill, "rejected_by_compiler": stats["compile_error"] - before[0],
                                      "accepted_by_compiler": sum(ill_accepted.values()), "accepted_defects": ill_accepted,
                                      "defects": len(c05_illtyped.defects()) + len(c05_illtyped.whole_programs()),
                                      "operator_constructors": len(c05_illtyped.operator_constructors(pt)), "chain_specs": len(list(c05_illtyped.chain_specs())),
                                      "contexts": ["%s/v%d/fp=%s" % x for x in c05_illtyped.CONTEXTS]}

    # ---- 0d. recursion cycles through an ABIReturnSubroutine with an output argument, live locals of mixed storage types
    n_abirec = 0
    for c in c05_abirec.all_cases(pt, thorough):
        consider(c, 3)
        n_abirec += 1
    ck.coverage["abi_recursion_cases"] = n_abirec

    # ---- 0c. routine-tail shapes: the last statement of a routine is an If / ElseIf / Cond / nesting with leaving and staying arms
    n_tail = 0
    tail_before = (stats["compile_error"], stats["accept"])
    for (name, main_r, subdefs, v, ss, fp) in c05_tails.all_cases():
        c = Case("tails", main_r, [dict(sd) for sd in subdefs], v, True, ss, fp)
        c.tail_name = name
        consider(c, 2)
        n_tail += 1
    ck.coverage["tail_shapes"] = {"cases": n_tail, "compile_errors": stats["compile_error"] - tail_before[0], "accepted_by_checker": stats["accept"] - tail_before[1]}

    # ---- 0b. directed: store/load-dense main routines (C03's generator) with the slot optimiser on
    main_model = Model()
    n_dense = 400 if thorough else 45
    for i in range(n_dense):
        app = rng.random() < 0.8
        prepare, r = store_dense_recipe(rng, 6, app)
        reserve = {}
        for cell in (prepare.__closure__ or ()):
            if isinstance(cell.cell_contents, dict):
                reserve = cell.cell_contents
        for (v, ss) in ((6, True), (9, None), (10, None)):
            consider(DenseCase(main_model, r, reserve, v, app, ss, None), 2)
    ck.coverage["dense_programs"] = n_dense

    # ---- 1. exhaustive small main-routine shapes x versions x modes
    smalls = small_recipes()
    for r in smalls:
        for v in (range(2, 11) if thorough else [2, 4, 6, 8, 10]):
            for app in ((True, False) if thorough else (True,)):
                consider(Case("small", r, [], v, app, None, None), 1)
    ck.coverage["small_shapes"] = len(smalls)
    # ---- 2. random main-routine programs (the C01 generator)
    n_main = 5000 if thorough else 300
    for i in range(n_main):
        version, app, ss, fp = random_case_params(rng)
        cio = rng.random() < 0.04
        g = Gen(rng, version, app, size=rng.choice([5, 10, 20, 40, 60]), allow_new_ops=0.0, ctrl_in_operand=cio)
        r = g.program(depth=rng.choice([1, 2, 3, 4]))
        init = tuple(("op", "store", (("slot", k),), "n", ((I(0) if t == "u" else B(b"")),)) for k, t in g.vars.items())
        if init:
            r = ("seq",) + init + (r,)
        for k, v in g.hist.items():
            hist[k] = hist.get(k, 0) + v
        consider(Case("main", r, [], version, app, ss, fp), 2 if thorough else 1)
    # ---- 3. programs with subroutines
    n_sub = 8000 if thorough else 550
    for i in range(n_sub):
        version = rng.choice([4, 5, 6, 6, 7, 8, 8, 8, 9, 10, 10])
        app = rng.random() < 0.85
        ss = rng.choice([None, None, True, False])
        fp = rng.choice([None, True, True, False]) if version >= 8 else rng.choice([None, None, False])
        fp_on = fp is True or (fp is None and version >= 8)
        subdefs, main_r, h = c05_gen.gen_program(rng, version, app, fp_on)
        for k, v in h.items():
            hist["sub:" + k] = hist.get("sub:" + k, 0) + v
        consider(Case("subs", main_r, subdefs, version, app, ss, fp), 2)

    # ---- verdict
    ck.coverage["static_outcomes"] = stats
    ck.coverage["reject_messages"] = reject_msgs
    ck.coverage["uncovered_messages"] = uncovered_msgs
    ck.coverage["dynamic_outcomes"] = dyn
    ck.coverage["constructor_histogram"] = hist
    ck.coverage["option_matrix"] = {"%s/%s/ss=%s/fp=%s" % k: v for k, v in sorted(opt_matrix.items())}
    seen = set()
    for what, rep in problems:
        key = (rep.get("kind"), (rep.get("static") or {}).get("msg"), what[:60])
        if key in seen and len(seen) > 0:
            continue
        seen.add(key)
        if len(seen) > 8:
            break
        ck.violation(what, rep)
    if not ck.proof_ok and not problems:
        ck.violation("proof obligation broken: Props/C05.v / Proofs/StackCheck*.v no longer check; the checker and the AVM runs over %d programs found no failing input" % stats["accept"],
                     {"kind": "proof", "broken": "Props/C05.v", "log": ck.proof_log[-1500:]}, no_failing_input=True)
    if stats["accept"] == 0 and not problems:
        ck.model_problem("the checker accepted no program at all")
    ck.coverage["disagreements_checked"] = len(problems) + stats["reject"]
    ck.coverage["programs"] = stats["accept"] + stats["reject"] + stats["uncovered"] + stats["fuel"]
    model.close()
    main_model.close()
    return ck.finish(
        level="proof",
        rule="programs: recursion cycles through an ABIReturnSubroutine with an output argument and live locals of mixed storage types (scratch convention v6..10 and frame pointers), routine-tail shapes (main routines and none/uint64/bytes subroutines with 0..2 arguments whose last statement is an If / If-ElseIf-Else / Cond / nesting "
             "with leaving (Return/Approve/Reject/Err) and staying arms in every position, followed by another routine; versions 4..10, both conventions, optimiser on/off), a nearly-well-typed stream (one typing defect per program: a value in statement position, none where a value is needed, an operand / store / "
             "abi set / output.set / Return of the wrong concrete type; main routine, scratch-convention and frame-pointer subroutines; a compiler rejection is the expected outcome, an acceptance is checked), "
             "store/load-dense main routines (c03.store_dense_recipe; scratch_slots=True at v6, default at v9/v10; known-finding class decided by the Coq compile model), "
             "a directed set of Router-built programs (2 ARC-4 routers: ABI methods with uint64/string/bool/address/tuple arguments, void and value results, "
             "bare create and opt-in actions, a recursive helper subroutine; approval and clear-state programs; versions 6..10 x optimize in {default, frame_pointers on/off, scratch_slots on/off}, "
             "each method and bare action executed), exhaustive small control-flow shapes x versions (main routine), seeded random main-routine programs (C01 generator, sizes 5..60, versions 2..10, "
             "both modes, optimiser matrix, 4% with control transfer inside operands), seeded random programs with 1..5 subroutines (arity 0..4, by-value and by-reference parameters, "
             "returns none/uint64/bytes, self and mutual recursion with spilled locals, early Return, loops with Break/Continue, MaybeValue/box_get, ABI locals in frames; versions 4..10, "
             "frame pointers on/off, optimiser on/off); each real compileTeal output is checked by the extracted stack_check against the declared subroutine signatures and executed on the "
             "extracted AVM on generated typed contexts; distinct = (TEAL text[, context]); non-trivial = compiles; programs using ScratchSlot.store() without a value are not generated",
        trusted_base=[
            "AVM semantics coq/AVM/Machine.v, Ops.v (hand-written spec; retsub under proto returns the cells at the frame pointer), TEAL parser coq/AVM/Parse.v",
            "coq/AVM/StackSig.v: hand-written opcode stack signatures and txn/global field types (langspec from memory); proved sound AND necessary against Machine.exec_op "
            "(C05_signatures_abstract_the_machine, C05_signatures_necessary); field types compared with pyteal.TxnField/GlobalField on every run; opcodes the machine model does not execute "
            "(ecdsa, json_ref, *_params_get, ...) have signatures that no theorem exercises",
            "Theorems speak about Machine.step on typed contexts (StackSig.ctx_typed: field values have their table type); inner-transaction field reads are typed `any`",
            "The subroutine signature table given to the checker is the one PyTeal's declarations imply (harness/c05.py Case.declare: arity, declared return type); a wrong table can only reject",
            "Scratch-slot types are tracked flow-sensitively inside a routine and forgotten at every callsub / stores: C05_no_anytype_no_type_error needs annot_strict, which programs reading a slot written before a call (or by another routine) into a typed operand do not satisfy; for those the last clause of the property is covered by the dynamic cross-check only",
            "Extraction: ExtrOcamlBasic + ExtrOcamlNativeString; driver.ml; harness/build.py + harness/c05_gen.py map recipes to public PyTeal constructors",
        ])


if __name__ == "__main__":
    sys.exit(run_main(main))
