"""C01, free-form part: constructs OUTSIDE the recipe language of build.py / the Coq source semantics (Substring / Extract / Suffix /
Replace with constant and run-time indexes, effectful operands, Break / Continue inside a For's step, the same expression object used
twice, byte-string operators, Concat of many pieces, nested Cond ...).  There is no model here: every program is written so that its
meaning is computed independently IN PYTHON (`expect`), from the same transaction fields the program reads: the expected verdict and
the expected ordered list of logged byte strings.  The real compiler's output is executed on the extracted AVM and compared with that.
A difference is a concrete failing input (program + context + both observations)."""


def _u64(n):
    return n.to_bytes(8, "big")


def programs(pt):
    """list of (name, min_version, build() -> Expr, expect(fee, amount, arg0) -> (approve: bool, logs: list[bytes]) or None = must fail)"""
    out = []

    def prog(name, minv=6):
        def deco(f):
            b, e = f()
            out.append((name, minv, b, e))
            return f
        return deco

    S20 = b"abcdefghijklmnopqrst"

    # ---- effectful operand evaluated exactly once: a subroutine that logs and bumps a global counter, used as the string operand
    def chunk_sub():
        @pt.Subroutine(pt.TealType.bytes)
        def nextchunk() -> pt.Expr:
            return pt.Seq(pt.App.globalPut(pt.Bytes("n"), pt.App.globalGet(pt.Bytes("n")) + pt.Int(1)), pt.Log(pt.Bytes("call")), pt.Return(pt.Bytes(S20)))
        return nextchunk

    @prog("suffix-dynamic-start-effectful-operand")
    def _():
        def build():
            nc = chunk_sub()
            return pt.Seq(pt.App.globalPut(pt.Bytes("n"), pt.Int(0)), pt.Log(pt.Suffix(nc(), pt.Txn.fee() % pt.Int(20))),
                          pt.Return(pt.App.globalGet(pt.Bytes("n")) == pt.Int(1)))
        return build, lambda fee, amt, a0: (True, [b"call", S20[fee % 20:]])

    @prog("substring-extract-dynamic-effectful-operand")
    def _():
        def build():
            nc = chunk_sub()
            s, e = pt.Txn.fee() % pt.Int(10), pt.Int(10) + pt.Txn.amount() % pt.Int(10)
            return pt.Seq(pt.App.globalPut(pt.Bytes("n"), pt.Int(0)), pt.Log(pt.Substring(nc(), s, e)), pt.Log(pt.Extract(nc(), s, pt.Int(3))),
                          pt.Return(pt.App.globalGet(pt.Bytes("n")) == pt.Int(2)))
        return build, lambda fee, amt, a0: (True, [b"call", S20[fee % 10:10 + amt % 10], b"call", S20[fee % 10:fee % 10 + 3]])

    @prog("substring-family-constant-boundaries", 5)
    def _():
        big = bytes(range(256)) + bytes(range(44))      # 300 bytes
        cases = [(0, 2), (1, 1), (0, 255), (0, 256), (1, 256), (255, 256), (255, 257), (256, 257), (200, 300), (0, 300), (299, 300)]

        def build():
            b = pt.Bytes(big)
            stmts = []
            for s_, e_ in cases:
                # (no logs here: the AVM allows 1024 logged bytes per call) each slice is compared with the expected constant
                stmts.append(pt.Assert(pt.Substring(b, pt.Int(s_), pt.Int(e_)) == pt.Bytes(big[s_:e_])))
                stmts.append(pt.Assert(pt.Extract(b, pt.Int(s_), pt.Int(e_ - s_)) == pt.Bytes(big[s_:e_])))
            stmts.append(pt.Assert(pt.Suffix(b, pt.Int(256)) == pt.Bytes(big[256:])))
            stmts.append(pt.Assert(pt.Suffix(b, pt.Int(0)) == b))
            return pt.Seq(*stmts, pt.Approve())

        def expect(fee, amt, a0):
            return (True, [])
        return build, expect

    @prog("replace-constant-and-dynamic", 7)
    def _():
        def build():
            return pt.Seq(pt.Log(pt.Replace(pt.Bytes(S20), pt.Int(3), pt.Bytes("XY"))), pt.Log(pt.Replace(pt.Bytes(S20), pt.Txn.fee() % pt.Int(18), pt.Bytes("XY"))),
                          pt.Approve())
        rep = lambda s, i, r: s[:i] + r + s[i + len(r):]
        return build, lambda fee, amt, a0: (True, [rep(S20, 3, b"XY"), rep(S20, fee % 18, b"XY")])

    # ---- loop control inside a For's step / start
    @prog("for-break-in-step-inside-outer-loop", 4)
    def _():
        def build():
            i, j, acc = pt.ScratchVar(pt.TealType.uint64), pt.ScratchVar(pt.TealType.uint64), pt.ScratchVar(pt.TealType.uint64)
            inner = pt.For(j.store(pt.Int(0)), j.load() < pt.Int(5), pt.Seq(j.store(j.load() + pt.Int(1)), pt.If(j.load() == pt.Int(2)).Then(pt.Break()))).Do(
                acc.store(acc.load() * pt.Int(10) + j.load() + pt.Int(1)))
            return pt.Seq(acc.store(pt.Int(0)), i.store(pt.Int(0)),
                          pt.While(i.load() < pt.Int(3)).Do(pt.Seq(inner, acc.store(acc.load() + pt.Int(1000000) * (i.load() + pt.Int(1))), i.store(i.load() + pt.Int(1)))),
                          pt.Return(pt.And(i.load() == pt.Int(3), acc.load() == pt.Int(EXPECT_ACC))))
        return build, lambda fee, amt, a0: (True, [])

    # inner For runs j = 0, 1 (body), then the step makes j = 2 and BREAKS OUT OF THE INNER LOOP ONLY; per outer iteration: acc = (acc*10+1)*10+2 then + 1e6*(i+1)
    def _acc():
        acc = 0
        for i in range(3):
            for j in range(5):
                acc = acc * 10 + j + 1
                if j + 1 == 2:
                    break
            acc += 1000000 * (i + 1)
        return acc
    EXPECT_ACC = _acc()

    @prog("for-continue-in-step", 4)
    def _():
        def build():
            j, acc = pt.ScratchVar(pt.TealType.uint64), pt.ScratchVar(pt.TealType.uint64)
            # Continue inside the step goes to the step itself again?  No: PyTeal binds it to the loop head's condition check of THIS loop
            return pt.Seq(acc.store(pt.Int(0)),
                          pt.For(j.store(pt.Int(0)), j.load() < pt.Int(4), j.store(j.load() + pt.Int(1))).Do(
                              pt.Seq(pt.If(j.load() == pt.Int(1)).Then(pt.Continue()), acc.store(acc.load() + j.load() + pt.Int(10)))),
                          pt.Return(acc.load() == pt.Int(10 + 12 + 13)))
        return build, lambda fee, amt, a0: (True, [])

    # ---- one expression OBJECT used for both operands (the tree semantics evaluates it twice)
    @prog("same-object-both-operands-effectful")
    def _():
        def build():
            k = pt.Bytes("c")
            e = pt.Seq(pt.App.globalPut(k, pt.App.globalGet(k) + pt.Int(1)), pt.Log(pt.Itob(pt.App.globalGet(k))), pt.App.globalGet(k))
            return pt.Seq(pt.App.globalPut(k, pt.Int(0)), pt.Pop(e < e), pt.Pop(pt.Minus(e, pt.Int(0)) == e), pt.Return(pt.App.globalGet(k) == pt.Int(4)))
        return build, lambda fee, amt, a0: (True, [_u64(1), _u64(2), _u64(3), _u64(4)])

    @prog("itob-btoi-round-trips")
    def _():
        def build():
            return pt.Seq(pt.Log(pt.Itob(pt.Btoi(pt.Bytes("base16", "05")))), pt.Log(pt.Itob(pt.Btoi(pt.Bytes("")))), pt.Log(pt.Itob(pt.Btoi(pt.Itob(pt.Txn.fee())))),
                          pt.Return(pt.Btoi(pt.Itob(pt.Txn.fee())) == pt.Txn.fee()))
        return build, lambda fee, amt, a0: (True, [_u64(5), _u64(0), _u64(fee)])

    @prog("btoi-of-nine-bytes-fails")
    def _():
        def build():
            return pt.Seq(pt.Pop(pt.Itob(pt.Btoi(pt.Bytes("base16", "010203040506070809")))), pt.Approve())
        return build, lambda fee, amt, a0: None

    # ---- right- and left-nested products at the overflow boundary
    @prog("nested-products-regrouping")
    def _():
        A = 2 ** 40

        def build():
            z = pt.Txn.fee() - pt.Txn.fee()                       # run-time zero
            return pt.Seq(pt.Log(pt.Itob(pt.Mul(pt.Int(A), pt.Mul(pt.Int(A), z)))),     # a * (b * 0) = 0 : must not fail
                          pt.Log(pt.Itob(pt.Mul(pt.Mul(z, pt.Int(A)), pt.Int(A)))),
                          pt.Log(pt.Itob(pt.Add(pt.Int(2 ** 63), pt.Add(pt.Int(2 ** 62), pt.Int(2 ** 62) - pt.Int(1))))),
                          pt.Approve())
        return build, lambda fee, amt, a0: (True, [_u64(0), _u64(0), _u64(2 ** 64 - 1)])

    @prog("nested-product-must-overflow")
    def _():
        def build():
            z = pt.Txn.fee() - pt.Txn.fee()
            return pt.Seq(pt.Pop(pt.Mul(z, pt.Mul(pt.Int(2 ** 40), pt.Int(2 ** 40)))), pt.Approve())     # 0 * (overflow) : the inner product fails first
        return build, lambda fee, amt, a0: None

    # ---- byte-string helpers and many-argument n-ary operators
    @prog("concat-many-and-bytes-compare")
    def _():
        def build():
            parts = [pt.Bytes("p%d" % i) for i in range(7)]
            c = pt.Concat(*parts)
            return pt.Seq(pt.Log(c), pt.Log(pt.Concat(pt.Itob(pt.Txn.fee()), pt.Bytes("|"), pt.Itob(pt.Txn.amount()))),
                          pt.Return(pt.And(pt.Len(c) == pt.Int(14), pt.BytesEq(pt.Substring(c, pt.Int(2), pt.Int(4)), pt.Bytes("p1")), pt.Int(1), pt.Or(pt.Int(0), pt.Int(0), pt.Int(3)))))
        return build, lambda fee, amt, a0: (True, [b"".join(b"p%d" % i for i in range(7)), _u64(fee) + b"|" + _u64(amt)])

    @prog("cond-arms-in-order-first-match-wins")
    def _():
        def build():
            f = pt.Txn.fee() % pt.Int(4)
            return pt.Seq(pt.Log(pt.Cond([f == pt.Int(0), pt.Bytes("zero")], [f < pt.Int(2), pt.Bytes("one")], [f < pt.Int(4), pt.Bytes("big")])), pt.Approve())
        return build, lambda fee, amt, a0: (True, [[b"zero", b"one", b"big", b"big"][fee % 4]])

    @prog("getbit-setbit-getbyte-setbyte", 3)
    def _():
        def build():
            b = pt.Bytes("base16", "00ff10")
            return pt.Seq(pt.Pop(pt.Int(0)),
                          pt.Return(pt.And(pt.GetByte(b, pt.Int(2)) == pt.Int(16), pt.GetBit(b, pt.Int(8)) == pt.Int(1), pt.GetBit(pt.Int(5), pt.Int(0)) == pt.Int(1),
                                           pt.GetByte(pt.SetByte(b, pt.Int(0), pt.Int(9)), pt.Int(0)) == pt.Int(9), pt.GetBit(pt.SetBit(b, pt.Int(0), pt.Int(1)), pt.Int(0)) == pt.Int(1))))
        return build, lambda fee, amt, a0: (True, [])

    return out


def ctx_fields(ctx):
    """(Fee, Amount, arg0 bytes) out of a context produced by gen_prog.gen_context"""
    fee = amt = None
    arg0 = b""

    def walk(x):
        nonlocal fee, amt
        if isinstance(x, tuple):
            if len(x) == 2 and x[0] == "Fee" and isinstance(x[1], int):
                fee = x[1]
            if len(x) == 2 and x[0] == "Amount" and isinstance(x[1], int):
                amt = x[1]
            for y in x:
                walk(y)
    walk(ctx)
    return fee, amt, arg0
