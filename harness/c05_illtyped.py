"""C05 — the "nearly well-typed" stream: directed programs that each contain ONE typing defect.  C05 quantifies over
every program the compiler ACCEPTS, so each is offered to the real compiler; a PyTeal error is the expected outcome
(counted), an acceptance is checked like any other output (stack checker + AVM runs).

A defect is a function d(pt, h) -> a statement (an Expr that SHOULD have type none) built from helper values h:
h.any() an anytype-valued expression (App.globalGet / untyped ScratchVar load / a by-value subroutine argument),
h.u() / h.b() uint64 / bytes expressions, h.c() a condition, h.su / h.sb typed ScratchVars, h.abi_u() ... fresh ABI
values (frame cells inside a frame-pointer subroutine).  Each defect is placed in three contexts: the main routine,
a subroutine with the scratch calling convention, a subroutine with frame pointers (v8+); whole-program defects
(Return of the wrong type, mixed If/Cond arms) are separate builders."""
import re

from common import S, call_real


class H:
    def __init__(self, pt, app, args=None, flavour=0):
        self.pt, self.app, self.args, self.flavour = pt, app, args, flavour
        self.su = pt.ScratchVar(pt.TealType.uint64)
        self.sb = pt.ScratchVar(pt.TealType.bytes)
        self.sa = pt.ScratchVar()

    def any(self):
        pt = self.pt
        if self.args is not None and self.flavour % 3 == 0:
            return self.args[0]
        if self.app and self.flavour % 3 != 2:
            return pt.App.globalGet(pt.Bytes("k1"))
        return self.sa.load()

    def u(self):
        return self.pt.Txn.fee()

    def b(self):
        return self.pt.Txn.sender()

    def c(self):
        return self.pt.Txn.fee() > self.pt.Int(7)

    def init(self):
        """statements that make the helper variables defined"""
        pt = self.pt
        return [self.su.store(pt.Int(1)), self.sb.store(pt.Bytes("s")), self.sa.store(pt.Int(2))]


def _val(h, k):
    return {"a": h.any, "u": h.u, "b": h.b}[k]()


def defects():
    """name -> d(pt, h)"""
    D = {}
    for k in "aub":
        D["seq-nonfinal-" + k] = lambda pt, h, k=k: pt.Seq(_val(h, k), pt.Pop(pt.Int(1)))
        D["if-then-" + k] = lambda pt, h, k=k: pt.If(h.c()).Then(_val(h, k))
        D["if-then-else-mixed-" + k] = lambda pt, h, k=k: pt.If(h.c(), _val(h, k), pt.Seq())
        D["if-else-" + k] = lambda pt, h, k=k: pt.If(h.c()).Then(pt.Pop(pt.Int(1))).Else(_val(h, k))
        D["while-body-" + k] = lambda pt, h, k=k: pt.While(h.su.load() < pt.Int(2)).Do(pt.Seq(h.su.store(h.su.load() + pt.Int(1)), _val(h, k)))
        D["while-body-only-" + k] = lambda pt, h, k=k: pt.While(pt.Int(0)).Do(_val(h, k))
        D["for-body-" + k] = lambda pt, h, k=k: pt.For(h.su.store(pt.Int(0)), h.su.load() < pt.Int(2), h.su.store(h.su.load() + pt.Int(1))).Do(_val(h, k))
        D["for-start-" + k] = lambda pt, h, k=k: pt.For(_val(h, k), h.su.load() < pt.Int(2), h.su.store(h.su.load() + pt.Int(1))).Do(pt.Pop(pt.Int(1)))
        D["for-step-" + k] = lambda pt, h, k=k: pt.Seq(h.su.store(pt.Int(0)), pt.For(pt.Seq(), h.su.load() < pt.Int(2), _val(h, k)).Do(h.su.store(h.su.load() + pt.Int(1))))
        D["cond-arm-stmt-" + k] = lambda pt, h, k=k: pt.Cond([h.c(), _val(h, k)], [pt.Int(1), pt.Pop(pt.Int(1))])
        D["assert-comment-" + k] = lambda pt, h, k=k: pt.Seq(pt.Comment("c", _val(h, k)), pt.Pop(pt.Int(1)))
    # none where a value is needed
    D["pop-none"] = lambda pt, h: pt.Pop(pt.Seq())
    D["add-none"] = lambda pt, h: pt.Pop(pt.Int(1) + pt.Pop(pt.Int(2)))
    D["store-none"] = lambda pt, h: h.su.store(pt.Seq())
    D["cond-none"] = lambda pt, h: pt.If(pt.Seq()).Then(pt.Pop(pt.Int(1)))
    D["log-none"] = lambda pt, h: pt.Pop(pt.Len(pt.Seq(pt.Pop(pt.Int(1)))))
    D["if-value-then-none-else"] = lambda pt, h: pt.Pop(pt.If(h.c(), pt.Int(1), pt.Seq()))
    # operand of the wrong concrete type
    D["add-bytes"] = lambda pt, h: pt.Pop(pt.Int(1) + h.b())
    D["len-uint"] = lambda pt, h: pt.Pop(pt.Len(h.u()))
    D["btoi-uint"] = lambda pt, h: pt.Pop(pt.Btoi(h.u()))
    D["itob-bytes"] = lambda pt, h: pt.Pop(pt.Itob(h.b()))
    D["concat-uint"] = lambda pt, h: pt.Pop(pt.Concat(h.b(), h.u()))
    D["cond-bytes"] = lambda pt, h: pt.If(h.b()).Then(pt.Pop(pt.Int(1)))
    D["assert-bytes"] = lambda pt, h: pt.Assert(h.b())
    D["while-cond-bytes"] = lambda pt, h: pt.While(h.b()).Do(pt.Pop(pt.Int(1)))
    D["eq-mixed"] = lambda pt, h: pt.Pop(h.u() == h.b())
    D["substring-bytes-index"] = lambda pt, h: pt.Pop(pt.Substring(h.b(), h.b(), pt.Int(1)))
    D["getbyte-uint"] = lambda pt, h: pt.Pop(pt.GetByte(h.u(), pt.Int(0)))
    D["bytesadd-uint"] = lambda pt, h: pt.Pop(pt.BytesAdd(h.b(), h.u()))
    D["sha-uint"] = lambda pt, h: pt.Pop(pt.Sha256(h.u()))
    D["loadtyped-mismatch"] = lambda pt, h: pt.Pop(pt.Len(h.su.load()))
    D["if-arms-u-b-as-uint"] = lambda pt, h: pt.Pop(pt.If(h.c(), h.u(), h.b()) + pt.Int(1))
    D["if-elseif-arms-mixed"] = lambda pt, h: pt.Pop(pt.If(h.c()).Then(pt.Int(1)).ElseIf(h.u() > pt.Int(3)).Then(pt.Bytes("x")).Else(pt.Bytes("y")) + pt.Int(1))
    D["cond-arms-mixed"] = lambda pt, h: pt.Pop(pt.Cond([h.c(), pt.Int(1)], [pt.Int(1), pt.Bytes("x")]) + pt.Int(1))
    D["select-mixed-as-uint"] = lambda pt, h: pt.Pop(pt.If(h.c(), h.b(), h.b()) + pt.Int(1))
    # ill-typed stores
    D["svar-u-gets-b"] = lambda pt, h: pt.Seq(h.su.store(h.b()), pt.Pop(h.su.load() + pt.Int(1)))
    D["svar-b-gets-u"] = lambda pt, h: pt.Seq(h.sb.store(h.u()), pt.Pop(pt.Len(h.sb.load())))
    D["abi-uint64-set-bytes"] = lambda pt, h: (lambda n: pt.Seq(n.set(h.b()), pt.Pop(n.get() + pt.Int(1))))(pt.abi.Uint64())
    D["abi-uint8-set-bytes"] = lambda pt, h: (lambda n: pt.Seq(n.set(h.b()), pt.Pop(n.get() + pt.Int(1))))(pt.abi.Uint8())
    D["abi-bool-set-bytes"] = lambda pt, h: (lambda n: pt.Seq(n.set(h.b()), pt.Pop(n.get() + pt.Int(1))))(pt.abi.Bool())
    D["abi-address-set-uint"] = lambda pt, h: (lambda a: pt.Seq(a.set(h.u()), pt.Pop(pt.Len(a.get()))))(pt.abi.Address())
    D["abi-string-set-uint"] = lambda pt, h: (lambda a: pt.Seq(a.set(h.u()), pt.Pop(pt.Len(a.get()))))(pt.abi.String())
    D["abi-dynbytes-set-uint"] = lambda pt, h: (lambda a: pt.Seq(a.set(h.u()), pt.Pop(pt.Len(a.get()))))(pt.abi.DynamicBytes())
    D["abi-byte-set-bytes"] = lambda pt, h: (lambda n: pt.Seq(n.set(h.b()), pt.Pop(n.get() + pt.Int(1))))(pt.abi.Byte())
    D["abi-uint64-decode-uint"] = lambda pt, h: (lambda n: pt.Seq(n.decode(h.u()), pt.Pop(n.get() + pt.Int(1))))(pt.abi.Uint64())
    return D


CONTEXTS = [("main", 6, None), ("main", 9, None), ("sub", 6, None), ("sub", 8, False), ("fpsub", 8, None), ("fpsub", 9, True), ("fpsub", 10, None)]


def build_stmt_program(pt, dname, ctx, flavour):
    """the defect `dname` in context ctx -> Expr (raises PyTeal errors like any user program would)"""
    d = defects()[dname]
    if ctx == "main":
        h = H(pt, True, None, flavour)
        return pt.Seq(*(h.init() + [d(pt, h), pt.Approve()]))

    @pt.Subroutine(pt.TealType.uint64, name="ds")
    def ds(a, b):
        h = H(pt, True, [a, b], flavour)
        return pt.Seq(*(h.init() + [d(pt, h), pt.Int(1)]))
    return pt.Seq(pt.Pop(ds(pt.Int(3), pt.Bytes("q"))), pt.Approve())


def whole_programs():
    """name -> (build(pt) -> Expr, contexts)"""
    W = {}

    def ret_sub(rt, value):
        def build(pt):
            @pt.Subroutine(getattr(pt.TealType, rt), name="ds")
            def ds(a, b):
                return pt.Seq(pt.If(a).Then(pt.Return(*value(pt))), *tail(pt))
            tail = lambda pt: {"uint64": [pt.Int(1)], "bytes": [pt.Bytes("t")], "none": []}[rt]
            call = ds(pt.Int(3), pt.Bytes("q"))
            return pt.Seq(call if rt == "none" else pt.Pop(call), pt.Approve())
        return build
    W["main-return-bytes"] = (lambda pt: pt.Return(pt.Txn.sender()), "main")
    W["main-return-none"] = (lambda pt: pt.Return(pt.Seq()), "main")
    W["main-body-bytes"] = (lambda pt: pt.Txn.sender(), "main")
    W["sub-uint-returns-bytes"] = (ret_sub("uint64", lambda pt: [pt.Txn.sender()]), "sub")
    W["sub-bytes-returns-uint"] = (ret_sub("bytes", lambda pt: [pt.Txn.fee()]), "sub")
    W["sub-none-returns-uint"] = (ret_sub("none", lambda pt: [pt.Txn.fee()]), "sub")
    W["sub-uint-returns-nothing"] = (ret_sub("uint64", lambda pt: []), "sub")

    def body_type(rt, body):
        def build(pt):
            @pt.Subroutine(getattr(pt.TealType, rt), name="ds")
            def ds(a, b):
                return body(pt)
            call = ds(pt.Int(3), pt.Bytes("q"))
            return pt.Seq(call if rt == "none" else pt.Pop(call), pt.Approve())
        return build
    W["sub-uint-body-bytes"] = (body_type("uint64", lambda pt: pt.Txn.sender()), "sub")
    W["sub-none-body-uint"] = (body_type("none", lambda pt: pt.Txn.fee()), "sub")
    W["sub-uint-body-none"] = (body_type("uint64", lambda pt: pt.Pop(pt.Int(1))), "sub")

    def abi_out(kind):
        def build(pt):
            if kind == "uint-gets-bytes":
                @pt.ABIReturnSubroutine
                def ds(*, output: pt.abi.Uint64):
                    return output.set(pt.Txn.sender())
                r = pt.abi.Uint64()
                return pt.Seq(r.set(ds()), pt.Return(r.get()))
            if kind == "address-gets-uint":
                @pt.ABIReturnSubroutine
                def ds(*, output: pt.abi.Address):
                    return output.set(pt.Txn.fee())
                r = pt.abi.Address()
                return pt.Seq(r.set(ds()), pt.Return(pt.Len(r.get())))
            @pt.ABIReturnSubroutine
            def ds(x: pt.abi.Uint64, *, output: pt.abi.Uint64):
                return pt.Seq(x.set(pt.Txn.sender()), output.set(x.get() + pt.Int(1)))
            r = pt.abi.Uint64()
            a = pt.abi.Uint64()
            return pt.Seq(a.set(pt.Int(4)), r.set(ds(a)), pt.Return(r.get()))
        return build
    W["abi-output-uint-gets-bytes"] = (abi_out("uint-gets-bytes"), "sub")
    W["abi-output-address-gets-uint"] = (abi_out("address-gets-uint"), "sub")
    W["abi-arg-uint-gets-bytes"] = (abi_out("arg"), "sub")
    return W


# ---------------------------------------------------------------------------------------------------------------
# exhaustive streams driven by pyteal's own public surface
# ---------------------------------------------------------------------------------------------------------------
import inspect
import itertools

NAMESPACES = ("App", "AssetHolding", "AssetParam", "AppParam", "AccountParam", "JsonRef", "Base64Decode", "Block")
CLASS_ALLOW = ("Assert", "Return")      # classes whose constructor takes operand expressions; other classes take enums / slots


def operator_constructors(pt):
    """every public constructor that builds an expression from operand expressions: the functions of pyteal.__all__
    (Add, Btoi, GetByte, Substring, SetBit, Divw, Ed25519Verify, ...), a few classes, and the static methods of the
    namespace classes (App.globalPut, AssetParam.total, JsonRef.as_string, ...); sorted, so the stream is deterministic"""
    out = []
    for name in sorted(pt.__all__):
        f = getattr(pt, name)
        if inspect.isfunction(f) or name in CLASS_ALLOW:
            out.append((name, f))
    for ns in NAMESPACES:
        c = getattr(pt, ns, None)
        if c is None:
            continue
        for m in sorted(dir(c)):
            f = getattr(c, m)
            if not m.startswith("_") and callable(f) and not isinstance(f, type) and m not in ("And", "Or"):
                out.append((ns + "." + m, f))
    return out


def resolve(pt, name):
    f = pt
    for part in name.split("."):
        f = getattr(f, part)
    return f


def build_op_program(pt, name, combo):
    """constructor `name` applied to operands of the concrete types in `combo` ('u' / 'b'), as a whole program"""
    args = [pt.Txn.fee() if k == "u" else pt.Txn.sender() for k in combo]
    e = resolve(pt, name)(*args)
    if not isinstance(e, pt.Expr):
        raise pt.TealInputError("not an expression")
    if e.has_return():
        return e
    return pt.Seq(e if e.type_of() == pt.TealType.none else pt.Pop(e), pt.Approve())


def arm(pt, k):
    return {"n": pt.Pop(pt.Int(1)), "u": pt.Txn.fee() + pt.Int(0), "b": pt.Txn.sender(), "a": pt.App.globalGet(pt.Bytes("k1"))}[k]


def build_chain_program(pt, shape, types):
    """an If/ElseIf/Else chain or a Cond whose arms have the given types; arm i is taken when Txn.fee() == i (the last
    arm otherwise); the value is used according to the type PyTeal assigns to the whole expression"""
    k = len(types)
    cond = lambda i: pt.Txn.fee() == pt.Int(i)
    if shape == "elseif":
        e = pt.If(cond(0)).Then(arm(pt, types[0]))
        for i in range(1, k - 1):
            e = e.ElseIf(cond(i)).Then(arm(pt, types[i]))
        e = e.Else(arm(pt, types[k - 1]))
    elif shape == "elseif-open":       # no final Else
        e = pt.If(cond(0)).Then(arm(pt, types[0]))
        for i in range(1, k):
            e = e.ElseIf(cond(i)).Then(arm(pt, types[i]))
    else:
        e = pt.Cond(*[[cond(i) if i < k - 1 else pt.Int(1), arm(pt, types[i])] for i in range(k)])
    t = e.type_of()
    if t == pt.TealType.none:
        use = e
    elif t == pt.TealType.uint64:
        use = pt.Pop(e + pt.Int(1))
    elif t == pt.TealType.bytes:
        use = pt.Pop(pt.Len(e))
    else:
        use = pt.Pop(e)
    return pt.Seq(use, pt.Approve()), t


def chain_specs():
    for shape in ("elseif", "cond"):
        for k in (2, 3, 4):
            for types in itertools.product("nuba", repeat=k):
                yield shape, "".join(types)
    for k in (1, 2, 3):
        for types in itertools.product("nuba", repeat=k):
            yield "elseif-open", "".join(types)


SIGS = {"ds": None}     # filled per case from the emitted text: arity by the program family


class IllCase:
    """Same interface as c05.Case for the parts `consider` uses."""

    def __init__(self, dname, ctx, version, fp, flavour=0, whole=False):
        self.kind, self.dname, self.ctx, self.flavour, self.whole = "illtyped", dname, ctx, flavour, whole
        self.version, self.app, self.ss, self.fp = version, True, None, fp
        self.recipe, self.subdefs = ("illtyped", dname, ctx, flavour), []
        self.real, self.decl = None, []

    def compile(self, pt, ss="same"):
        ss_ = None if ss == "same" else ss
        opt = None if (ss_ is None and self.fp is None) else pt.OptimizeOptions(scratch_slots=ss_, frame_pointers=self.fp)

        def go():
            if self.dname.startswith("op:"):
                _, name, combo = self.dname.split(":")
                e = build_op_program(pt, name, combo)
            elif self.dname.startswith("chain:"):
                _, shape, types = self.dname.split(":")
                e, t = build_chain_program(pt, shape, types)
                self.chain_type = getattr(t, "name", "?")
            else:
                e = whole_programs()[self.dname][0](pt) if self.whole else build_stmt_program(pt, self.dname, self.ctx, self.flavour)
            return pt.compileTeal(e, pt.Mode.Application, version=self.version, optimize=opt)
        return call_real(go)

    def contexts(self, rng):
        """chains: one context per arm (Txn.fee() selects the arm); the global the anytype arm reads holds a value of the
        type PyTeal gave the whole expression, so that an anytype arm never fails by itself.  Others: random contexts."""
        from gen_prog import gen_context
        if not self.dname.startswith("chain:"):
            return [gen_context(rng, True) for _ in range(2)]
        k = len(self.dname.split(":")[2])
        kv = (b"k1", b"sixteen bytes...") if getattr(self, "chain_type", "") == "bytes" else (b"k1", 7)
        out = []
        for fee in range(k + 1):
            out.append((S("ctx"), (S("mode"), S("app")), (S("gi"), 0), (S("app-id"), 77),
                        (S("group"), ((S("fields"), ("Fee", fee), ("Sender", bytes(32)), ("NumAppArgs", 0), ("ApplicationID", 77),
                                       ("OnCompletion", 0), ("TypeEnum", 6), ("GroupIndex", 0)), (S("arrays"), ("ApplicationArgs", ())))),
                        (S("globals"), ("MinTxnFee", 1000), ("GroupSize", 1), ("ZeroAddress", bytes(32))),
                        (S("gstate"), kv), (S("fuel"), 4000)))
        return out

    def declare(self, teal):
        """`ds_k`: the one subroutine of these programs; arity and result from its declaration in this module"""
        decl = []
        for m in re.finditer(r"^ds_(\d+):$", teal, re.M):
            if self.whole:
                n = self.dname
                if n.startswith("abi-output"):
                    args, rets = [], [n.split("-")[2][0] if n.split("-")[2] != "address" else "b"]
                elif n.startswith("abi-arg"):
                    args, rets = ["u"], ["u"]
                else:
                    rt = n.split("-")[1]
                    args, rets = ["b", "u"], {"uint": ["u"], "bytes": ["b"], "none": []}[rt]
            else:
                args, rets = ["b", "u"], ["u"]
            decl.append((m.group(0)[:-1], args, rets))
        return decl

    def has_ctrl_in_operand(self):
        return False

    def optimiser_on(self):
        return self.version >= 9

    def describe(self):
        return {"kind": "illtyped", "defect": self.dname, "context": self.ctx, "flavour": self.flavour, "whole": self.whole,
                "recipe": repr(self.recipe), "subdefs": "[]", "version": self.version, "mode": "app", "scratch_slots": None,
                "frame_pointers": self.fp, "teal": self.real[1].split("\n") if self.real and self.real[0] == "ok" else repr(self.real),
                "decl": self.decl}


def exhaustive_cases(pt):
    """every public operator constructor x every arity 1..4 x every assignment of concrete operand types; every
    If/ElseIf/Else chain, open ElseIf chain and Cond with 2..4 (1..3) arms x every assignment of arm types"""
    for name, _ in operator_constructors(pt):
        for n in (1, 2, 3, 4):
            for combo in itertools.product("ub", repeat=n):
                yield IllCase("op:%s:%s" % (name, "".join(combo)), "main", 10, None, whole=True)
    for shape, types in chain_specs():
        yield IllCase("chain:%s:%s" % (shape, types), "main", 6, None, whole=True)


def all_cases():
    for dname in defects():
        for i, (ctx, v, fp) in enumerate(CONTEXTS):
            yield IllCase(dname, ctx, v, fp, flavour=i)
    for dname, (_, ctx) in whole_programs().items():
        for (c, v, fp) in CONTEXTS:
            if (ctx == "main") == (c == "main"):
                yield IllCase(dname, c, v, fp, whole=True)
