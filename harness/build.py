"""Recipes -> real PyTeal objects (through public constructors only) and -> the model's wire format.

A recipe is a nested tuple mirroring coq/Src/Expr.v:
  ('op', NAME, imms, TY, args)   ('nary', NAME, TY, args)   ('seq', e...)   ('if', c, t[, e])
  ('cond', (c, v)...)   ('while', c, b)   ('for', i, c, s, b)   'break'   'continue'
  ('assert', conds[, comment])   ('return'[, e])   ('exit', e)   ('multi', NAME, imms, args, nouts, KEY)
  ('call', SUBKEY, args)   ('wide', ns, ds)   ('param', i)
imms: ints, strings, ('slot', KEY).   TY: 'u' 'b' 'a' 'n'.
Slots are symbolic in the recipe (KEY) and become real ScratchSlot objects when built; the wire
form uses the ids read back from those objects, so the model never guesses PyTeal's counters."""
import sys

from common import S, sx  # noqa


class BuildError(Exception):
    pass


def _field_maps(pt):
    """arg_name -> accessor for Txn scalar fields, Txn array fields and Global fields (by introspection)."""
    txn_scalar, txn_array, glob = {}, {}, {}
    for m in dir(pt.Txn):
        if m.startswith("_"):
            continue
        attr = getattr(pt.Txn, m)
        try:
            if isinstance(attr, pt.TxnArray):
                txn_array[attr.accessField.arg_name] = m
            elif callable(attr):
                e = attr()
                if isinstance(e, pt.TxnExpr) and hasattr(e, "field"):
                    txn_scalar[e.field.arg_name] = m
        except Exception:
            pass
    for m in dir(pt.Global):
        if m.startswith("_"):
            continue
        attr = getattr(pt.Global, m)
        try:
            if callable(attr):
                e = attr()
                if hasattr(e, "field"):
                    glob[e.field.arg_name] = m
        except Exception:
            pass
    return txn_scalar, txn_array, glob


class Builder:
    def __init__(self, pt):
        self.pt = pt
        self.slots = {}          # KEY -> ScratchSlot
        self.vars = {}           # KEY -> ScratchVar
        self.slot_req = {}       # KEY -> requested id or None
        self.multi = {}          # KEY -> MultiValue object
        self.subs = {}           # SUBKEY -> dict(wrapper=..., recipe=...)
        self.txn_scalar, self.txn_array, self.glob = _field_maps(pt)
        self.params = None
        pt_ = pt
        self.UN = {"!": pt_.Not, "~": pt_.BitwiseNot, "len": pt_.Len, "itob": pt_.Itob, "btoi": pt_.Btoi,
                   "sqrt": pt_.Sqrt, "bitlen": pt_.BitLen, "sha256": pt_.Sha256, "keccak256": pt_.Keccak256,
                   "sha512_256": pt_.Sha512_256, "pop": pt_.Pop, "log": pt_.Log, "bzero": pt_.BytesZero,
                   "b~": pt_.BytesNot, "bsqrt": pt_.BytesSqrt, "app_global_get": pt_.App.globalGet,
                   "app_global_del": pt_.App.globalDel, "balance": pt_.Balance, "min_balance": pt_.MinBalance}
        self.BIN = {"-": pt_.Minus, "/": pt_.Div, "%": pt_.Mod, "exp": pt_.Exp, "<": pt_.Lt, ">": pt_.Gt, "<=": pt_.Le,
                    ">=": pt_.Ge, "==": pt_.Eq, "!=": pt_.Neq, "&": pt_.BitwiseAnd, "|": pt_.BitwiseOr, "^": pt_.BitwiseXor,
                    "shl": pt_.ShiftLeft, "shr": pt_.ShiftRight, "getbit": pt_.GetBit, "getbyte": pt_.GetByte,
                    "b+": pt_.BytesAdd, "b-": pt_.BytesMinus, "b*": pt_.BytesMul, "b/": pt_.BytesDiv, "b%": pt_.BytesMod,
                    "b<": pt_.BytesLt, "b>": pt_.BytesGt, "b<=": pt_.BytesLe, "b>=": pt_.BytesGe, "b==": pt_.BytesEq,
                    "b!=": pt_.BytesNeq, "b&": pt_.BytesAnd, "b|": pt_.BytesOr, "b^": pt_.BytesXor,
                    "extract_uint16": pt_.ExtractUint16, "extract_uint32": pt_.ExtractUint32, "extract_uint64": pt_.ExtractUint64,
                    "app_global_put": pt_.App.globalPut, "app_local_get": pt_.App.localGet, "app_local_del": pt_.App.localDel}
        self.TER = {"setbit": pt_.SetBit, "setbyte": pt_.SetByte, "divw": pt_.Divw, "app_local_put": pt_.App.localPut}
        self.NARY = {"+": pt_.Add, "*": pt_.Mul, "&&": pt_.And, "||": pt_.Or, "concat": pt_.Concat}
        self.TY = {"u": pt_.TealType.uint64, "b": pt_.TealType.bytes, "a": pt_.TealType.anytype, "n": pt_.TealType.none}

    # ---- slots
    def var(self, key):
        """the ScratchVar object behind a symbolic slot (created on first use)"""
        if key not in self.vars:
            req = self.slot_req.get(key)
            v = self.pt.ScratchVar(self.pt.TealType.anytype, req) if req is not None else self.pt.ScratchVar(self.pt.TealType.anytype)
            self.vars[key] = v
            self.slots[key] = v.slot
        return self.vars[key]

    def slot(self, key):
        if key not in self.slots:
            self.var(key)
        return self.slots[key]

    # ---- subroutines
    def define_sub(self, key, name, ret, kinds, body):
        """kinds: string over 'v' (by value, Expr) and 'r' (by reference, ScratchVar); body: recipe using ('param', i),
        ('refload', i, ty), ('refstore', i, value)."""
        pt = self.pt
        names = ["a%d" % i for i in range(len(kinds))]
        sig = ", ".join(n + (": ScratchVar" if k == "r" else "") for n, k in zip(names, kinds))
        builder = self

        def _body(pyargs):
            saved = builder.params
            builder.params = list(pyargs)
            try:
                return builder.build(body)
            finally:
                builder.params = saved

        ns = {"ScratchVar": pt.ScratchVar, "_body": _body}
        exec("def impl(%s):\n    return _body([%s])\n" % (sig, ", ".join(names)), ns)
        impl = ns["impl"]
        impl.__name__ = name if name.isidentifier() else "impl"
        wrapper = pt.Subroutine(self.TY[ret], name=name)(impl)
        self.subs[key] = {"wrapper": wrapper, "id": wrapper.subroutine.id, "ret": ret, "kinds": kinds, "body": body, "name": name}
        return wrapper

    def evaluate_subs(self, use_fp):
        """force SubroutineEval for the convention the compiler will use and read back the argument slots"""
        for key, sub in self.subs.items():
            decl = sub["wrapper"].subroutine.get_declaration_by_option(use_fp)
            kinds = sub["kinds"]
            n = len(kinds)
            ops = list(decl.body.args)
            sub["argslots"] = [None] * n
            if not use_fp:
                stores = ops[:n]
                for i in range(n):
                    sl = stores[n - 1 - i].slot
                    self.slots[("arg", key, i)] = sl
                    sub["argslots"][i] = ("arg", key, i)
            else:
                refs = [i for i in range(n) if kinds[i] == "r"]
                stores = ops[1:1 + len(refs)]
                for j, i in enumerate(refs):
                    sl = stores[len(refs) - 1 - j].slot
                    self.slots[("arg", key, i)] = sl
                    sub["argslots"][i] = ("arg", key, i)

    def wire_subs(self):
        out = []
        for key, sub in self.subs.items():
            ps = []
            for i, k in enumerate(sub["kinds"]):
                sk = sub.get("argslots", [None] * len(sub["kinds"]))[i]
                ps.append("(%s %d)" % ("true" if k == "r" else "false", self.slot_uid(sk) if sk is not None else 0))
            out.append("(sub %d %s %s (params %s) %s)" % (sub["id"], sx(sub["name"]), sub["ret"], " ".join(ps), self.wire(sub["body"])))
        return " ".join(out)

    def request_slot(self, key, slot_id):
        self.slot_req[key] = slot_id

    def slot_uid(self, key):
        """wire uid of a slot object: its id when automatic, 100000+k for reserved ones"""
        s = self.slots[key]
        if s.isReservedSlot:
            return 100000 + sorted((repr(k) for k in self.slots if self.slots[k].isReservedSlot)).index(repr(key))
        return s.id

    # ---- build
    def build(self, r):
        pt = self.pt
        if r == "break":
            return pt.Break()
        if r == "continue":
            return pt.Continue()
        k = r[0]
        if k == "shared":
            # ("shared", key, expr): the SAME Python expression object at every occurrence of the key (PyTeal trees are DAGs when the
            # user reuses an object); its meaning is the meaning of the tree with the sub-expression repeated
            _, key, sub = r
            if not hasattr(self, "_shared"):
                self._shared = {}
            if key not in self._shared:
                self._shared[key] = self.build(sub)
            return self._shared[key]
        if k == "op":
            _, name, imms, ty, args = r
            a = [self.build(x) for x in args]
            return self.build_op(name, list(imms), ty, a)
        if k == "nary":
            _, name, ty, args = r
            return self.NARY[name](*[self.build(x) for x in args])
        if k == "seq":
            return pt.Seq(*[self.build(x) for x in r[1:]])
        if k == "if":
            c = self.build(r[1])
            t = self.build(r[2])
            if len(r) > 3:
                return pt.If(c, t, self.build(r[3]))
            return pt.If(c, t)
        if k == "cond":
            return pt.Cond(*[[self.build(c), self.build(v)] for (c, v) in r[1:]])
        if k == "while":
            return pt.While(self.build(r[1])).Do(self.build(r[2]))
        if k == "for":
            return pt.For(self.build(r[1]), self.build(r[2]), self.build(r[3])).Do(self.build(r[4]))
        if k == "assert":
            conds = [self.build(x) for x in r[1]]
            if len(r) > 2 and r[2] is not None:
                return pt.Assert(*conds, comment=r[2])
            return pt.Assert(*conds)
        if k == "return":
            return pt.Return(self.build(r[1])) if len(r) > 1 else pt.Return()
        if k == "exit":
            v = r[1]
            if v == ("op", "int", (1,), "u", ()):
                return pt.Approve()
            if v == ("op", "int", (0,), "u", ()):
                return pt.Reject()
            raise BuildError("exit with a non-constant argument has no public constructor")
        if k == "multi":
            _, name, imms, args, nouts, key = r
            a = [self.build(x) for x in args]
            if name == "app_global_get_ex":
                mv = pt.App.globalGetEx(a[0], a[1])
            elif name == "app_local_get_ex":
                mv = pt.App.localGetEx(a[0], a[1], a[2])
            else:
                raise BuildError("multi " + name)
            self.multi[key] = mv
            for i, s in enumerate(mv.output_slots):
                self.slots[(key, i)] = s
            return mv
        if k == "call":
            _, skey, args = r
            w = self.subs[skey]["wrapper"]
            return w(*[self.build(x) for x in args])
        if k == "wide":
            return pt.WideRatio([self.build(x) for x in r[1]], [self.build(x) for x in r[2]])
        if k == "param":
            p = self.params[r[1]]
            # a by-reference parameter used as a value is the slot number it refers to
            return p.index() if isinstance(p, pt.ScratchVar) else p
        if k == "refload":
            return self.params[r[1]].load()
        if k == "refstore":
            return self.params[r[1]].store(self.build(r[2]))
        if k == "varref":
            return self.var(r[1])
        if k == "paramref":
            # forward the routine's own by-reference parameter (a DynamicScratchVar) to another routine
            return self.params[r[1]]
        raise BuildError("unknown recipe node %r" % (k,))

    def build_op(self, name, imms, ty, a):
        pt = self.pt
        n = len(a)
        if name == "int" and n == 0:
            if isinstance(imms[0], int):
                return pt.Int(imms[0])
            if isinstance(imms[0], tuple) and imms[0][0] == "slot":
                return self.slot(imms[0][1]).index()
            return getattr(pt.OnComplete, imms[0])
        if name == "byte" and n == 0:
            sp = imms[0]
            assert sp.startswith("0x")
            return pt.Bytes("base16", sp)
        if name == "txn" and n == 0:
            return getattr(pt.Txn, self.txn_scalar[imms[0]])()
        if name == "txna" and n == 0:
            return getattr(pt.Txn, self.txn_array[imms[0]])[imms[1]]
        if name == "txnas" and n == 1:
            return getattr(pt.Txn, self.txn_array[imms[0]])[a[0]]
        if name == "global" and n == 0:
            return getattr(pt.Global, self.glob[imms[0]])()
        if name == "arg" and n == 0:
            return pt.Arg(imms[0])
        if name == "args" and n == 1:
            return pt.Arg(a[0])
        if name == "err" and n == 0:
            return pt.Err()
        if name == "load" and n == 0:
            return self.slot(imms[0][1]).load(self.TY[ty])
        if name == "store" and n == 1:
            return self.slot(imms[0][1]).store(a[0])
        if name == "store" and n == 0:
            return self.slot(imms[0][1]).store()
        if name == "loads" and n == 1:
            return pt.ScratchLoad(None, self.TY[ty], a[0])
        if name == "stores" and n == 2:
            return pt.ScratchStore(None, a[1], a[0])
        if name == "itxn_begin":
            return pt.InnerTxnBuilder.Begin()
        if name == "itxn_submit":
            return pt.InnerTxnBuilder.Submit()
        if name == "itxn_next":
            return pt.InnerTxnBuilder.Next()
        if name == "itxn_field" and n == 1:
            fld = [f for f in pt.TxnField if f.arg_name == imms[0]][0]
            return pt.InnerTxnBuilder.SetField(fld, a[0])
        if name == "//" and n == 0:
            return pt.Comment(imms[0])
        if n == 1 and name in self.UN:
            return self.UN[name](a[0])
        if n == 2 and name in self.BIN:
            return self.BIN[name](a[0], a[1])
        if n == 3 and name in self.TER:
            return self.TER[name](a[0], a[1], a[2])
        raise BuildError("no public constructor known for op %r with %d args" % (name, n))

    # ---- wire
    def wire(self, r):
        """recipe -> s-expression text (after build(), so that slot ids are known)"""
        if r == "break":
            return "break"
        if r == "continue":
            return "continue"
        k = r[0]
        if k == "shared":
            return self.wire(r[2])
        if k == "op":
            _, name, imms, ty, args = r
            if name == "//":
                # Comment(text) with no child = Seq(CommentExpr per line)
                lines = imms[0].splitlines()
                return "(seq " + " ".join('(op "//" (%s) n ())' % sx(l) for l in lines) + ")"
            return "(op %s (%s) %s (%s))" % (sx(name), " ".join(self.wire_imm(i) for i in imms), ty, " ".join(self.wire(x) for x in args))
        if k == "nary":
            _, name, ty, args = r
            return "(nary %s %s (%s))" % (sx(name), ty, " ".join(self.wire(x) for x in args))
        if k == "seq":
            return "(seq " + " ".join(self.wire(x) for x in r[1:]) + ")"
        if k == "if":
            return "(if " + " ".join(self.wire(x) for x in r[1:]) + ")"
        if k == "cond":
            return "(cond " + " ".join("(%s %s)" % (self.wire(c), self.wire(v)) for (c, v) in r[1:]) + ")"
        if k == "while":
            return "(while %s %s)" % (self.wire(r[1]), self.wire(r[2]))
        if k == "for":
            return "(for %s)" % " ".join(self.wire(x) for x in r[1:])
        if k == "assert":
            conds = "(" + " ".join(self.wire(x) for x in r[1]) + ")"
            if len(r) > 2 and r[2] is not None:
                return "(assert %s (comment %s))" % (conds, " ".join(sx(l) for l in r[2].splitlines()))
            return "(assert %s)" % conds
        if k == "return":
            return "(return %s)" % self.wire(r[1]) if len(r) > 1 else "(return)"
        if k == "exit":
            return "(exit %s)" % self.wire(r[1])
        if k == "multi":
            _, name, imms, args, nouts, key = r
            outs = " ".join(str(self.slot_uid((key, i))) for i in range(nouts))
            return "(multi %s (%s) (%s) (%s))" % (sx(name), " ".join(self.wire_imm(i) for i in imms), " ".join(self.wire(x) for x in args), outs)
        if k == "call":
            _, skey, args = r
            sub = self.subs[skey]
            return "(call %d %s (%s))" % (sub["id"], sub["ret"], " ".join(self.wire(x) for x in args))
        if k == "wide":
            return "(wide (%s) (%s))" % (" ".join(self.wire(x) for x in r[1]), " ".join(self.wire(x) for x in r[2]))
        if k == "param":
            return "(param %d)" % r[1]
        if k == "refload":
            return "(op \"loads\" () %s ((param %d)))" % (r[2], r[1])
        if k == "refstore":
            return "(op \"stores\" () n ((param %d) %s))" % (r[1], self.wire(r[2]))
        if k == "varref":
            return "(op \"int\" ((slot %d)) u ())" % self.slot_uid(r[1])
        if k == "paramref":
            return "(param %d)" % r[1]
        raise BuildError("wire: %r" % (k,))

    def wire_imm(self, i):
        if isinstance(i, bool):
            raise BuildError("bool immediate")
        if isinstance(i, int):
            return str(i)
        if isinstance(i, str):
            return sx(i)
        if isinstance(i, tuple) and i[0] == "slot":
            return "(slot %d)" % self.slot_uid(i[1])
        raise BuildError("imm %r" % (i,))

    def wire_slots(self):
        out = []
        for key, s in self.slots.items():
            out.append("(%d %d %s)" % (self.slot_uid(key), s.id, "true" if s.isReservedSlot else "false"))
        return "(slots " + " ".join(out) + ")"

    def wire_prog(self, main, subs_wire=None):
        if subs_wire is None:
            subs_wire = self.wire_subs()
        return "(prog %s (subs %s) %s)" % (self.wire(main), subs_wire, self.wire_slots())


def wire_opts(version, mode_app, scratch_slots=None, frame_pointers=None):
    tri = lambda b: "none" if b is None else ("true" if b else "false")
    return "(opts (version %d) (mode %s) (scratch-slots %s) (frame-pointers %s))" % (
        version, "app" if mode_app else "sig", tri(scratch_slots), tri(frame_pointers))
