#!/bin/bash
# Build the framework from files on disk only (offline): Coq development + extracted model binary.
set -e
cd "$(dirname "$0")"
export PYTEAL_REPO="${PYTEAL_REPO:-/repo}"
if [ -f harness/translate.py ]; then
  PYTHONPATH="$PYTEAL_REPO" PYTHONHASHSEED=0 /venv/bin/python harness/translate.py
fi
PYTHONPATH=harness /venv/bin/python -c "import common,sys; ok,out=common.coq_make(tag='all'); print(out[-3000:]); sys.exit(0 if ok else 1)"
for e in coq/Extract/Extract*.v; do n=$(basename $e .v); n=${n#Extract}; n=${n#_}; ( cd ocaml && ./build.sh ${n:-main} ); done
echo "setup ok"
