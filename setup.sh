#!/bin/bash
# Build the framework from files on disk only (offline): Coq development + extracted model binaries.
# Tolerant by design: a proof that no longer checks (e.g. because the tables regenerated from the tree under
# test changed) must be reported by the property's own check as a VIOLATION, not abort the build of everything
# else.  So: make -k; a second, low-parallelism pass recovers from out-of-memory kills of single coqc jobs.
cd "$(dirname "$0")"
export PYTEAL_REPO="${PYTEAL_REPO:-/repo}"
if [ -f harness/translate.py ]; then
  PYTHONPATH="$PYTEAL_REPO" PYTHONHASHSEED=0 /venv/bin/python harness/translate.py || echo "setup: translator failed (checks will report it)"
fi
[ -f harness/c04_translate.py ] && { PYTHONPATH="$PYTEAL_REPO" PYTHONHASHSEED=0 /venv/bin/python harness/c04_translate.py || echo "setup: c04 translator failed (C04 will report it)"; }
# CallX/*: 13 proof files are textual re-instantiations of Proofs/* against a call oracle; regenerate (idempotent) so they follow their sources
[ -f harness/tools/callx_gen.py ] && { python3 harness/tools/callx_gen.py coq > /dev/null 2>&1 || echo "setup: callx_gen failed (committed CallX copies are used)"; }
PYTHONPATH=harness /venv/bin/python - <<'PY'
import common, sys
ok, out = common.coq_make(tag='all', keep_going=True)
if not ok:
    print(out[-2500:])
    print("setup: first pass incomplete; second pass with -j3")
    ok, out = common.coq_make(tag='all', keep_going=True, jobs=3)
print(out[-1500:])
print("setup: coq build %s" % ("complete" if ok else "INCOMPLETE (affected checks will report their own proof failure)"))
PY
rc=0
for e in coq/Extract/Extract*.v; do
  n=$(basename $e .v); n=${n#Extract}; n=${n#_}
  ( cd ocaml && ./build.sh ${n:-main} ) || { echo "setup: binary ${n:-main} failed"; [ -z "$n" ] && rc=1; }
done
[ $rc = 0 ] && echo "setup ok"
exit $rc
