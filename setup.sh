#!/bin/bash
# Build the framework from files on disk only (offline): Coq development + extracted model binary.
set -e
cd "$(dirname "$0")"
export PYTEAL_REPO="${PYTEAL_REPO:-/repo}"
if [ -f harness/translate.py ]; then
  PYTHONPATH="$PYTEAL_REPO" PYTHONHASHSEED=0 /venv/bin/python harness/translate.py
fi
( cd coq && coq_makefile -f _CoqProject -o Makefile >/dev/null && timeout 3000 make -j16 )
( cd ocaml && ./build.sh )
echo "setup ok"
